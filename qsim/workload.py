"""Seeded text workloads (self-contained: no file of the repo is read)."""
from datetime import datetime, timedelta

DOWS = ["monday", "mon", "tue", "tuesday", "wed", "mittwoch", "thursday", "do.", "fri",
        "freitag", "sat", "samstag", "sonntag", "sun", "montags", "dienstag"]
MONTHS = ["january", "jan", "feb", "februar", "march", "märz", "april", "apr.", "mai", "may",
          "june", "juli", "aug", "september", "sept", "oct", "oktober", "nov", "dezember",
          "dec"]
PODS = ["morning", "morgens", "früh", "vormittag", "forenoon", "noon", "mittags", "afternoon",
        "nachmittags", "evening", "abends", "tonight", "night", "nachts", "late", "early",
        "very early", "sehr spät", "first", "last", "earliest", "as late as possible"]
MODS = ["early", "late", "very early", "very late", "früh", "spät", "sehr früh", "später"]
RELDAYS = ["today", "heute", "tomorrow", "morgen", "tmrw", "übermorgen", "yesterday",
           "gestern", "vorgestern", "now", "jetzt", "right now", "eom", "end of the month",
           "ende des monats", "eoy", "end of year", "jahresende", "at this time"]
ABSORB = ["at", "on", "am", "um", "gegen", "den", "the", "ca.", "about", "around", "in the",
          "of", "this", "next", "nächsten", "kommenden", "following", "next week",
          "nächste woche", "diesen"]
JOIN = ["-", "to", "bis", "until", "and", "und", "/", "bis zum", "to the", "zum",
        "no later than", "spätestens"]
FROMS = ["from", "between", "von", "vom", "zwischen", "before", "after", "vor", "nach",
         "not before", "nicht nach", "ab", "frühestens", "latest", "bis", "earliest"]
CLOCKS = ["8", "8pm", "8 am", "12 am", "12pm", "20:00", "8:30", "08:15", "7.25 pm", "1430",
          "0800", "2015", "2018", "8 uhr", "8h", "8h30", "20 uhr 15", "8 o'clock", "five",
          "fünf", "acht uhr", "midnight", "mitternacht", "half 8", "halb acht",
          "quarter to 9", "viertel nach 3", "quarter past eight", "half past 7", "13", "0",
          "23:59", "00:00", "24", "5", "9", "17", "3", "12", "1013", "0932", "1147", "1230",
          # the wrap-around branches of the spoken forms (hour 0 / 12 / 1)
          "quarter to midnight", "half to midnight", "viertel vor mitternacht", "quarter to 1",
          "halb eins", "quarter to 12 am", "viertel vor 0 uhr", "half past 12"]
DOMS = ["1.", "5.", "5th", "1st", "22nd", "3rd", "31.", "30.", "29.", "15", "12ten", "28",
        "31st", "30th"]
DATES = ["12.12.2020", "31.04.2020", "29.02.2019", "29.2.", "31.6.", "30.02.", "5.10.",
         "05/10", "1/2", "12-24", "07.11.95", "07.11.17", "1.1.2000", "31.12.1999",
         "29.02.2020", "10/31/2018", "31/10/2018", "3-4", "2019", "1995", "20", "99",
         "5 may 2021", "31 june", "feb 30", "30 feb 2021", "may 5th", "5. mai", "11-31",
         "jan 31"]
DURS = ["1 day", "2 nights", "three days", "eine nacht", "zwei wochen", "half an hour",
        "half a day", "1/2 h", "30 m", "3 months", "45 minutes", "for 2 days", "für 3 tage",
        "for one night", "for 90 minutes", "0 days", "a week", "for 4000000 days",
        "für 99999999999 tage", "for 999999 months", "for 120000 weeks", "for 87600000 hours",
        "999999999 m", "half week", "half a month", "1/2 night", "half day", "half hour",
        # units next to the vocabulary that no pattern knows today
        "2 years", "für 1 jahr", "for 3 years", "30 seconds", "10 sekunden", "a fortnight",
        "2 quarters", "ein jahrzehnt"]
LABELS = ["#fun", "#work", "#a-b", "#_x1", "#1st", "#", "#fun#work", "# tag", "#Überraschung",
          # '#' followed by characters that mean something to a regular expression or a format
          "#(x", "#)", "#[a", "#]", "#\\q", "#\\", "#*", "#+1", "#?", "#.", "#|", "#^a", "#$",
          "#{0}", "#%s", "#a(b", "#work #work", "#b #a #b"]
INERT = ["beers", "and", "burgers", "lunch", "with", "bob", "call", "zahnarzt", "meeting",
         "xyzzy", "gargelbabel", "kaffee", "-", "--", "q3", "review"]
NOISE = [" ", "\t", "–", "—", "(", ")", "[", "]", ";", ",", "​", "\n",
         "　", "﻿", "€", "日本", "ß", "İ", "ǆ", "İ", "\U0001f600", "\x00",
         "‮", "%", "\\", "'", '"', ".", ":", "::", "..", "a.m.", "p.m", "h", "m",
         "uhr", "\u0661\u0662.\u0661\u0662.\u0662\u0660\u0662\u0660", "\uff11\uff12:\uff13\uff10",
         "\u0663 pm", "\u0968\u0966\u0968\u0966",
         # lone surrogates (half an emoji): legal in a Python str, not encodable
         "\ud83d", "x\udfffy", "\ud800 lunch"]

FIXED_TEXTS = [
    "beers and burgers friday 8pm-9pm",
    "beers and burgers friday 8pm-9pm #fun",
    "May 5th 2:30 in the afternoon",
    "12.12.2020",
    "12.12.",
    "gargelbabel",
    "8:00 pm",
    "8:00 pm - 9:00 pm",
    "tomorrow 8 yesterday Sep 9 9 12 2023 1923",
    "Donnerstag, den 05.10. ca 6:55",
    "22.05.2017 früh",
    "04.07.2017 19:55 Uhr",
    "Am 12.03.2017 18:40 - 19:45",
    "Mi., 04.05.2016 ca. 08:00 Uhr bis ca. 09:00 Uhr",
    "THURSDAY 4th JANUARY 2018",
    "morgen 19:25",
    "tomorrow 7.25 pm",
    "Montagmorgen",
    "sunday night",
    "next monday",
    "monday next week",
    "am 25. Januar 2017 am späten Nachmittag",
    "5-3",
    "at 9-5",
    "12.12.2020 9-5",
    "31.04.2020 9-5",
    "early early early early morning",
    "mon 5th",
    "on the 27th for one day",
    "heute eine Übernachtung",
    "3 days 15-18 Nov",
    "15-16 Nov für 1 Nacht",
    "Mon, Nov 13 11:30 PM - 3:35 AM",
    "between 8 and 9",
    "not before 10",
    "spätestens 18 uhr",
    "from monday to friday",
    "12 am",
    "12:30 am",
    "5 in the morning",
    "8:07 on 10 december 2017",
    "",
    " ",
    "#fun",
    "#fun #work",
]

GROUPS = [DOWS, MONTHS, PODS, MODS, RELDAYS, ABSORB, JOIN, FROMS, CLOCKS, DOMS, DATES, DURS,
          LABELS, INERT, NOISE]
GROUP_NAMES = ["dow", "month", "pod", "mod", "relday", "absorb", "join", "from", "clock",
               "dom", "date", "dur", "label", "inert", "noise"]


def gen_text(rng, max_tokens=6, groups=None):
    """Token soup from the rule vocabulary. Swarm style: each text first picks
    which token groups are enabled, then draws tokens from them."""
    if groups is None:
        k = rng.randint(1, 5)
        groups = rng.sample(range(len(GROUPS)), k)
    n = rng.randint(1, max_tokens)
    toks = []
    for _ in range(n):
        g = GROUPS[rng.choice(groups)]
        t = rng.choice(g)
        if rng.random() < 0.08:
            t = t.upper()
        elif rng.random() < 0.05:
            t = t.title()
        toks.append(t)
    sep_mode = rng.random()
    if sep_mode < 0.8:
        return " ".join(toks)
    if sep_mode < 0.9:
        return "".join(toks)
    seps = [" ", "  ", ", ", "\t", " - ", "-", " ", "; "]
    out = toks[0]
    for t in toks[1:]:
        out += rng.choice(seps) + t
    return out


def structured_text(rng):
    """Texts shaped like real requests (date/time grammar)."""
    forms = [
        lambda: "%s %s" % (rng.choice(DOWS + RELDAYS + DATES), rng.choice(CLOCKS)),
        lambda: "%s %s %s" % (rng.choice(ABSORB), rng.choice(DOWS + DOMS), rng.choice(PODS)),
        lambda: "%s %s %s" % (rng.choice(CLOCKS), rng.choice(JOIN), rng.choice(CLOCKS)),
        lambda: "%s %s %s %s" % (rng.choice(DATES + DOWS), rng.choice(CLOCKS),
                                 rng.choice(JOIN), rng.choice(CLOCKS)),
        lambda: "%s %s %s" % (rng.choice(DOMS), rng.choice(MONTHS),
                              rng.choice(["", "2019", "2021", "17", "95"])),
        lambda: "%s %s" % (rng.choice(FROMS), rng.choice(CLOCKS + DATES + DOWS)),
        lambda: "%s %s %s" % (rng.choice(DATES + DOMS), rng.choice(JOIN),
                              rng.choice(DATES + DOMS)),
        lambda: "%s %s" % (rng.choice(DATES + RELDAYS + DOWS), rng.choice(DURS)),
        lambda: "%s %s %s" % (rng.choice(MODS), rng.choice(MODS + PODS), rng.choice(PODS)),
        lambda: "%s %s %s" % (rng.choice(INERT), rng.choice(DOWS + RELDAYS),
                              rng.choice(CLOCKS + LABELS)),
        lambda: "%s %s" % (rng.choice(CLOCKS), rng.choice(PODS)),
        lambda: "%s %s %s" % (rng.choice(DOWS), rng.choice(DOMS), rng.choice(MONTHS)),
    ]
    return rng.choice(forms)().strip()


def ambiguity_family():
    """n repeated ambiguous tokens: the number of candidate sequences grows
    exponentially (every token has several overlapping pattern matches)."""
    out = []
    for n in (2, 3, 4, 5):
        out.append(" ".join(["5"] * n))
    out += ["mon tue wed", "mon tue wed thu", "1 2 3 4", "8 9 10 11", "5 5 5 5 5 5"]
    return out


def ref_time(rng, lo=1970, hi=2100):
    """Reference times incl. leap days, month/year ends, sub-minute parts."""
    kind = rng.random()
    y = rng.randint(lo, hi)
    if kind < 0.15:
        while not (y % 4 == 0 and (y % 100 != 0 or y % 400 == 0)):
            y = rng.randint(lo, hi)
        d = datetime(y, 2, rng.choice([28, 29]))
    elif kind < 0.24:
        d = datetime(y, 12, 31)
    elif kind < 0.3:
        # the days whose ISO week belongs to the neighbouring year
        d = datetime(y, 12, 29) + timedelta(days=rng.randint(0, 5))
    elif kind < 0.45:
        m = rng.randint(1, 12)
        d = datetime(y, m, 1) - timedelta(days=1) if (m > 1 or y > lo) else datetime(y, 1, 31)
    elif kind < 0.55:
        d = datetime(y, rng.randint(1, 12), 1)
    else:
        d = datetime(y, 1, 1) + timedelta(days=rng.randint(0, 364))
    tk = rng.random()
    if tk < 0.2:
        t = timedelta(hours=23, minutes=59, seconds=59, microseconds=rng.choice([0, 999999]))
    elif tk < 0.35:
        t = timedelta(0)
    elif tk < 0.5:
        t = timedelta(hours=rng.choice([0, 11, 12, 13]), minutes=rng.choice([0, 59]),
                      seconds=rng.choice([0, 30, 59]))
    else:
        t = timedelta(seconds=rng.randint(0, 86399), microseconds=rng.choice([0, 0, 123456]))
    return d + t


# characters that a case-insensitive Unicode match treats as equal to plain letters (full case
# folding), or that lower() / upper() map elsewhere than the ASCII letter they look like
FOLD_EQUIV = [("ss", "ß"), ("ß", "ss"), ("ß", "ẞ"), ("s", "ſ"), ("k", "\u212a"),
              ("st", "\ufb06"), ("st", "\ufb05"), ("fi", "\ufb01"), ("ff", "\ufb00"),
              ("fl", "\ufb02"), ("å", "\u212b"), ("i", "\u0130"), ("i", "ı"),
              ("ä", "a\u0308"), ("ö", "o\u0308"), ("ü", "u\u0308"), ("ä", "Ä"), ("ü", "Ü"),
              ("ö", "Ö"), ("é", "e\u0301"), ("a", "\uff41"), ("1", "\uff11"), ("m", "\u217f"),
              ("i", "\u2170"), ("v", "\u2174"), ("x", "\u2179"), ("d", "\u217e"),
              ("c", "\u217d"), ("l", "\u217c")]


def confuse(rng, text, k=None):
    """replace up to k occurrences of a letter (sequence) by a case-fold / compatibility
    equivalent: the text still "looks" the same to a Unicode-aware case-insensitive pattern"""
    if any(c.isdigit() for c in text) and rng.random() < 0.3:
        # every digit written in another script's decimal digits (full-width, Arabic-Indic,
        # Devanagari): \\d and int() accept them, [0-9] does not
        base = rng.choice([0xff10, 0x0660, 0x0966, 0x06f0])
        return "".join(chr(base + ord(c) - 48) if "0" <= c <= "9" else c for c in text)
    low = text.lower()
    cands = [(i, a, b) for a, b in FOLD_EQUIV for i in range(len(low)) if low.startswith(a, i)]
    if not cands:
        return text
    k = k or rng.choice([1, 1, 1, 2, 3])
    out = text
    for i, a, b in sorted(rng.sample(cands, min(k, len(cands))), reverse=True):
        if out.lower()[i:i + len(a)] == a:
            out = out[:i] + b + out[i + len(a):]
    return out


DAYNAMES = ["monday", "tuesday", "wednesday", "thursday", "friday", "saturday", "sunday"]
DAYNAMES_DE = ["montag", "dienstag", "mittwoch", "donnerstag", "freitag", "samstag", "sonntag"]
MONTHNAMES = ["january", "february", "march", "april", "may", "june", "july", "august",
              "september", "october", "november", "december"]


def just_missed(rng, lo=1971, hi=2098):
    """(text, reference time): a partial date written with the fields of a day D, asked a little
    AFTER D - the next occurrence is as far away as it can be (weekday + 31st: up to 20 months,
    29 february: 4 or 8 years, day + month: a year)"""
    y = rng.randint(lo, hi)
    r = rng.random()
    if r < 0.45:
        m = rng.choice([1, 3, 5, 7, 8, 10, 12, 12, 7])
        d = datetime(y, m, 31)
    elif r < 0.6:
        while not (y % 4 == 0 and (y % 100 != 0 or y % 400 == 0)):
            y = rng.randint(lo, hi)
        d = datetime(y, 2, 29)
    elif r < 0.8:
        d = datetime(y, rng.choice([1, 3, 4, 6, 9, 11, 12]), rng.choice([29, 30]))
    else:
        d = datetime(y, 1, 1) + timedelta(days=rng.randint(0, 364))
    dn = rng.choice([DAYNAMES, DAYNAMES_DE])[d.weekday()]
    mn = MONTHNAMES[d.month - 1]
    text = rng.choice(["%s %d." % (dn, d.day), "%s %dth" % (dn[:3], d.day), "%s %d." % (dn, d.day),
                       "%s %d" % (dn, d.day), "%d. %s" % (d.day, mn), "%s %d" % (mn, d.day),
                       "%d.%d." % (d.day, d.month), "%s %d. %s" % (dn, d.day, mn), "%d." % d.day,
                       "%s the %dst" % (dn, d.day) if d.day in (1, 21, 31) else "%s %d." % (dn, d.day)])
    ts = d + timedelta(days=rng.choice([1, 1, 2, 7, 20, 31, 45, 59]),
                       seconds=rng.choice([0, 1, 43200, 86399]))
    return text, ts
