"""qsim.core - shared machinery of the deterministic simulator.

* one integer (VERIF_SEED) decides every choice (derive_seed / stream)
* the library under test is imported from $VERIF_REPO (default /repo), never
  from site-packages
* an *engine* is a module with

      plan(prop, tier, seed)  -> list of JSON-able cases
      execute(case)           -> result dict (see run_case)
      shrink_moves(case)      -> iterator of simpler candidate cases (optional)

  a case is the complete, explicit description of one simulated run (ops,
  schedule, faults, clock script), so that a replay file is just a case.
* the runner executes cases on a fork pool, groups violations by fingerprint,
  matches them against known_findings.json, minimises unknown ones on the real
  code, writes the replay file, re-executes it in a fresh interpreter and only
  then prints the VIOLATION line.

Exit codes: 0 held (KNOWN-FINDING lines allowed), 1 VIOLATION, 2 harness error.
"""
import faulthandler
import hashlib
import importlib
import json
import multiprocessing
import os
import random
import subprocess
import sys
import time
import traceback
from concurrent.futures import ProcessPoolExecutor
from concurrent.futures.process import BrokenProcessPool

VERIF_ROOT = os.path.dirname(os.path.dirname(os.path.abspath(__file__)))
REPO = os.path.abspath(os.environ.get("VERIF_REPO", "/repo"))
PYTHON = "/venv/bin/python"
KNOWN_FINDINGS = os.path.join(VERIF_ROOT, "known_findings.json")
EVIDENCE_DIR = os.path.join(VERIF_ROOT, "evidence")
REPLAY_DIR = os.environ.get("QSIM_REPLAY_DIR") or os.path.join(VERIF_ROOT, "replays")


MAX_MINIMISED = 3    # violation classes per run that get a minimised replay file
MAX_REPORTED = 8     # violation classes per run that get a replay file at all


class HarnessError(Exception):
    """Something is wrong with the simulator itself - never a VIOLATION."""


# --------------------------------------------------------------------------
# seeds
# --------------------------------------------------------------------------
def derive_seed(*parts):
    h = hashlib.sha256("/".join(str(p) for p in parts).encode()).digest()
    return int.from_bytes(h[:8], "big")


def stream(run_seed, name):
    """Named PRNG sub-stream: a draw in one stream never shifts another."""
    return random.Random(derive_seed(run_seed, name))


def digest(obj):
    return hashlib.sha256(
        json.dumps(obj, sort_keys=True, default=repr, ensure_ascii=True).encode()
    ).hexdigest()[:16]


def short(obj):
    return hashlib.sha256(
        json.dumps(obj, sort_keys=True, default=repr, ensure_ascii=True).encode()
    ).hexdigest()[:10]


# --------------------------------------------------------------------------
# the library under test
# --------------------------------------------------------------------------
_LIB = {}


def use_repo():
    """Import ctparse from REPO's working tree; return the module namespace.

    Note: ``ctparse.ctparse`` as an attribute is the *function* (re-exported
    in __init__), so the submodule is taken from sys.modules.
    """
    if _LIB:
        return _LIB
    if sys.path[0] != REPO:
        sys.path.insert(0, REPO)
    import warnings

    warnings.simplefilter("ignore", SyntaxWarning)
    import ctparse  # noqa

    if not os.path.abspath(ctparse.__file__).startswith(REPO + os.sep):
        raise HarnessError(
            "ctparse imported from %s, expected under %s" % (ctparse.__file__, REPO)
        )
    for name in (
        "ctparse.ctparse",
        "ctparse.timers",
        "ctparse.rule",
        "ctparse.partial_parse",
        "ctparse.types",
        "ctparse.scorer",
        "ctparse.nb_scorer",
        "ctparse.loader",
        "ctparse.count_vectorizer",
        "ctparse.nb_estimator",
        "ctparse.pipeline",
        "ctparse.time.rules",
        "ctparse.time.postprocess_latent",
    ):
        importlib.import_module(name)
        _LIB[name.split(".", 1)[1]] = sys.modules[name]
    _LIB["pkg"] = ctparse
    # No check may depend on real time: the library's only clock (the deadline / timeit clock)
    # is virtual in every engine. Checks pass timeout=0 ("no limit"), so a correct tree never
    # consults it for a decision; a tree that turns timeout=0 into some default budget then
    # misbehaves deterministically (50 reads per virtual second) instead of "sometimes".
    _LIB["timers"].perf_counter = DefaultVirtualClock()
    import logging
    logging.getLogger("ctparse").addHandler(logging.NullHandler())  # keep stderr quiet
    return _LIB


class DefaultVirtualClock:
    """perf_counter stand-in used outside deadline-sim: +0.02 virtual seconds per read."""

    def __init__(self, step=0.02):
        self.now = 0.0
        self.step = step
        self.reads = 0

    def __call__(self):
        v = self.now
        self.now = v + self.step
        self.reads += 1
        return v


# --------------------------------------------------------------------------
# oracle-side value keys (never the library's own __eq__)
# --------------------------------------------------------------------------
def vkey(a):
    if a is None:
        return None
    n = type(a).__name__
    if n == "Time":
        return ["T", a.year, a.month, a.day, a.hour, a.minute, a.DOW, a.POD]
    if n == "Interval":
        return ["I", vkey(a.t_from), vkey(a.t_to)]
    if n == "Duration":
        return ["D", a.value, getattr(a.unit, "value", repr(a.unit))]
    if n == "RegexMatch":
        return ["R", a.id, a.mstart, a.mend]
    return ["?", repr(a)]


def tkey(v):
    """hashable form of a vkey"""
    if isinstance(v, list):
        return tuple(tkey(x) for x in v)
    return v


def cand_key(c):
    """Everything observable about one streamed candidate."""
    if c is None:
        return None
    r = c.resolution
    return [
        vkey(r),
        getattr(r, "mstart", None),
        getattr(r, "mend", None),
        [str(p) for p in c.production] if c.production is not None else None,
        repr(c.score),
        c.subject,
        c.labels,
    ]


# --------------------------------------------------------------------------
# known findings
# --------------------------------------------------------------------------
def load_known():
    if not os.path.exists(KNOWN_FINDINGS):
        return []
    with open(KNOWN_FINDINGS) as fd:
        data = json.load(fd)
    return [e for e in data.get("findings", []) if e.get("status") == "known"]


def match_known(known, prop, v):
    for e in known:
        if (
            e["property"] == prop
            and e["oracle"] == v["oracle"]
            and e["class"] == v["class"]
        ):
            return e
    return None


# --------------------------------------------------------------------------
# pool
# --------------------------------------------------------------------------
_ENGINE = None


def _worker_init(engine_name, hang_s):
    global _ENGINE
    _ENGINE = importlib.import_module("qsim.engines." + engine_name)
    faulthandler.enable()


def run_case(engine, case):
    """Execute one case; harness exceptions are reported apart from violations."""
    try:
        # the machine's time zone is part of the simulated environment, never the host's
        from qsim.clocks import set_process_zone
        set_process_zone(case.get("utc_offset_s", 0) if isinstance(case, dict) else 0)
        res = engine.execute(case)
    except HarnessError:
        raise
    except BaseException as e:  # an engine must classify library exceptions itself
        return {
            "harness_error": "%s: %s\n%s"
            % (type(e).__name__, e, traceback.format_exc(limit=12)),
            "viol": [],
            "digest": "",
            "n_eval": 0,
            "keys": [],
        }
    res.setdefault("viol", [])
    res.setdefault("n_eval", 1)
    res.setdefault("keys", [])
    res.setdefault("faults", {})
    res.setdefault("probes", {})
    res.setdefault("sim_time", 0)
    return res


def run_case_forked(engine, case, hang_s=600):
    """Execute one case in a fresh fork of this (pristine) process: no case can see
    library state left behind by another case, so every result replays from its case
    alone. The child reports through a pipe; a dead child is a harness error."""
    import pickle
    import signal

    r, w = os.pipe()
    pid = os.fork()
    if pid == 0:
        code = 0
        try:
            os.close(r)
            faulthandler.dump_traceback_later(hang_s, exit=True)
            res = run_case(engine, case)
            data = pickle.dumps(res)
            with os.fdopen(w, "wb") as fd:
                fd.write(data)
        except BaseException:
            traceback.print_exc()
            code = 3
        finally:
            os._exit(code)
    os.close(w)
    chunks = []
    with os.fdopen(r, "rb") as fd:
        while True:
            b = fd.read(1 << 16)
            if not b:
                break
            chunks.append(b)
    _, status = os.waitpid(pid, 0)
    if status != 0 or not chunks:
        return {"harness_error": "case child exited with status %s (hang > %ss, crash or "
                                 "unpicklable result)" % (status, hang_s),
                "viol": [], "digest": "", "n_eval": 0, "keys": [], "faults": {}, "probes": {},
                "sim_time": 0}
    return pickle.loads(b"".join(chunks))


def _run_chunk(args):
    chunk, hang_s = args
    out = []
    for idx, case in chunk:
        out.append((idx, run_case_forked(_ENGINE, case, hang_s)))
    return out


def run_pool(engine_name, cases, jobs, hang_s=600, chunk=None):
    """Run all cases; returns list of results in case order."""
    n = len(cases)
    if n == 0:
        return []
    if chunk is None:
        chunk = max(1, min(64, n // (jobs * 8) or 1))
    indexed = list(enumerate(cases))
    chunks = [(indexed[i : i + chunk], hang_s) for i in range(0, n, chunk)]
    results = [None] * n
    if jobs <= 1:
        _worker_init(engine_name, hang_s)
        for c in chunks:
            for idx, r in _run_chunk(c):
                results[idx] = r
        return results
    ctx = multiprocessing.get_context("fork")
    try:
        with ProcessPoolExecutor(
            max_workers=jobs,
            mp_context=ctx,
            initializer=_worker_init,
            initargs=(engine_name, hang_s),
        ) as ex:
            for part in ex.map(_run_chunk, chunks):
                for idx, r in part:
                    results[idx] = r
    except BrokenProcessPool as e:
        raise HarnessError("worker died (hang > %ss or crash): %s" % (hang_s, e))
    return results


# --------------------------------------------------------------------------
# minimisation (delta debugging on the real code)
# --------------------------------------------------------------------------
def _has(engine, case, prop, v):
    r = run_case_forked(engine, case)
    if r.get("harness_error"):
        return False
    return any(
        x["oracle"] == v["oracle"] and x["class"] == v["class"] for x in r["viol"]
    )


def minimise(engine, case, prop, v, budget=None, wall_s=None):
    """Greedy: try the engine's simpler variants while the same violation class
    (oracle id + class) persists. Bounded by a step budget and, as a safety net for
    expensive cases, by wall-clock time (which only limits how small the replay gets)."""
    moves = getattr(engine, "shrink_moves", None)
    if moves is None:
        return case, 0
    budget = budget or getattr(engine, "SHRINK_BUDGET", 120)
    wall_s = wall_s or getattr(engine, "SHRINK_WALL_S", 60)
    t0 = time.time()
    steps = 0
    improved = True
    while improved and steps < budget:
        improved = False
        for cand in moves(case):
            steps += 1
            if steps > budget or time.time() - t0 > wall_s:
                steps = budget + 1
                break
            if _has(engine, cand, prop, v):
                case = cand
                improved = True
                break
    return case, steps


def ddmin_list(items):
    """Yield shorter variants of a list: drop halves, quarters, ..., singles."""
    n = len(items)
    if n <= 1:
        if n == 1:
            yield []
        return
    size = n // 2
    while size >= 1:
        for start in range(0, n, size):
            yield items[:start] + items[start + size :]
        size //= 2


# --------------------------------------------------------------------------
# replay
# --------------------------------------------------------------------------
def write_replay(prop, engine_name, case, v, tag):
    os.makedirs(REPLAY_DIR, exist_ok=True)
    path = os.path.join(
        REPLAY_DIR, "%s-%s-%s.json" % (prop, v["oracle"].replace("/", "_"), tag)
    )
    with open(path, "w") as fd:
        json.dump(
            {
                "property": prop,
                "engine": engine_name,
                "found_with": {"VERIF_SEED": int(os.environ.get("VERIF_SEED", "0") or 0),
                               "tier": os.environ.get("QSIM_TIER", ""), "repo": REPO,
                               "note": "the case below is the complete, minimised run "
                                       "(ops / schedule / faults / clock script); replaying "
                                       "it does not need the seed"},
                "case": case,
                "violation": {
                    "oracle": v["oracle"],
                    "class": v["class"],
                    "detail": v.get("detail"),
                },
            },
            fd,
            indent=1,
            sort_keys=True,
            default=repr,
        )
    return path


def replay_file(path):
    """Re-execute a replay file; returns (reproduced, result)."""
    with open(path) as fd:
        rp = json.load(fd)
    engine = importlib.import_module("qsim.engines." + rp["engine"])
    if hasattr(engine, "worker_setup"):
        engine.worker_setup()
    r = run_case(engine, rp["case"])
    want = rp["violation"]
    hit = [
        x
        for x in r["viol"]
        if x["oracle"] == want["oracle"] and x["class"] == want["class"]
    ]
    return bool(hit), r, rp


def replay_in_fresh_process(path, hashseed="0"):
    env = dict(os.environ)
    env["PYTHONHASHSEED"] = hashseed
    env["QSIM_REEXEC"] = "1"
    p = subprocess.run(
        [PYTHON, os.path.join(VERIF_ROOT, "check"), "--replay", path],
        env=env,
        stdout=subprocess.PIPE,
        stderr=subprocess.STDOUT,
        text=True,
        timeout=900,
    )
    return p.returncode, p.stdout


# --------------------------------------------------------------------------
# determinism self-test: same case, fresh interpreter, other hash seed
# --------------------------------------------------------------------------
def fresh_digests(engine_name, cases, hashseed):
    env = dict(os.environ)
    env["PYTHONHASHSEED"] = str(hashseed)
    env["QSIM_REEXEC"] = "1"
    p = subprocess.run(
        [PYTHON, os.path.join(VERIF_ROOT, "check"), "--digest", engine_name],
        input=json.dumps(cases),
        env=env,
        stdout=subprocess.PIPE,
        stderr=subprocess.PIPE,
        text=True,
        timeout=900,
    )
    if p.returncode != 0:
        raise HarnessError("digest child failed: %s" % p.stderr[-2000:])
    return json.loads(p.stdout.strip().splitlines()[-1])


# --------------------------------------------------------------------------
# the runner
# --------------------------------------------------------------------------
def run_check(prop, engine_name, tier, seed, jobs, level, extra_evidence=None):
    t0 = time.time()
    use_repo()
    engine = importlib.import_module("qsim.engines." + engine_name)
    if hasattr(engine, "worker_setup"):
        engine.worker_setup()
    print("qsim: property=%s engine=%s tier=%s VERIF_SEED=%d jobs=%d repo=%s"
          % (prop, engine_name, tier, seed, jobs, REPO), flush=True)
    os.environ["QSIM_TIER"] = tier
    cases = engine.plan(prop, tier, seed)
    min_cases = getattr(engine, "MIN_CASES", {}).get((prop, tier)) or \
        getattr(engine, "MIN_CASES", {}).get(tier, 1)
    if len(cases) < min_cases:
        print("HARNESS-ERROR property=%s the planner produced %d cases, fewer than the %d this "
              "tier is meant to run" % (prop, len(cases), min_cases), flush=True)
        return 2
    hang_s = getattr(engine, "HANG_S", 600)
    if hasattr(engine, "prepare"):
        engine.prepare(cases, jobs)
    results = run_pool(engine_name, cases, jobs, hang_s=hang_s,
                       chunk=getattr(engine, "CHUNK", None))

    herr = [r["harness_error"] for r in results if r.get("harness_error")]
    if herr:
        print("HARNESS-ERROR property=%s %d case(s) raised inside the harness; first:\n%s"
              % (prop, len(herr), herr[0]), flush=True)
        return 2

    # ---- aggregate
    n_eval = sum(r["n_eval"] for r in results)
    keys = set()
    faults, probes = {}, {}
    sim_time = 0
    for r in results:
        keys.update(r["keys"])
        for k, n in r["faults"].items():
            faults[k] = faults.get(k, 0) + n
        for k, n in r["probes"].items():
            probes[k] = probes.get(k, 0) + n
        sim_time += r["sim_time"]

    # ---- violations
    known = load_known()
    by_fp = {}
    for i, r in enumerate(results):
        for v in r["viol"]:
            fp = (v["oracle"], v["class"])
            by_fp.setdefault(fp, []).append((i, v))
    exit_code = 0
    n_known = 0
    n_viol = 0
    n_reported = 0
    skipped = []
    for fp in sorted(by_fp):
        i, v = by_fp[fp][0]
        k = match_known(known, prop, v)
        if k is not None:
            n_known += 1
            print("KNOWN-FINDING: property=%s oracle=%s class=%s occurrences=%d %s"
                  % (prop, v["oracle"], v["class"], len(by_fp[fp]), k.get("what", "")),
                  flush=True)
            continue
        n_viol += 1
        if n_reported >= MAX_REPORTED:
            # enough replay files for one run; the remaining classes are only named
            skipped.append("%s/%s(%d)" % (fp[0], fp[1], len(by_fp[fp])))
            exit_code = 1
            continue
        reported = False
        last_out = ""
        for i, v in by_fp[fp][:6]:
            case = cases[i]
            # the first few classes get a minimised replay, the others the case as found
            if n_reported < MAX_MINIMISED:
                small, steps = minimise(engine, case, prop, v)
            else:
                small, steps = case, 0
            for cand in ([small, case] if small is not case else [case]):
                vv = v
                rr = run_case_forked(engine, cand)
                for x in rr["viol"]:
                    if x["oracle"] == v["oracle"] and x["class"] == v["class"]:
                        vv = x
                path = write_replay(prop, engine_name, cand, vv, short([cand, fp]))
                rc, last_out = replay_in_fresh_process(path)
                if rc == 1:
                    print("  oracle=%s class=%s occurrences=%d minimise_steps=%d\n  detail: %s"
                          % (vv["oracle"], vv["class"], len(by_fp[fp]), steps, vv.get("detail")),
                          flush=True)
                    print("VIOLATION property=%s replay=%s" % (prop, path), flush=True)
                    reported = True
                    n_reported += 1
                    break
                os.unlink(path)
            if reported:
                break
        if not reported:
            print("HARNESS-ERROR property=%s violation %s/%s did not reproduce from its replay "
                  "file in a fresh interpreter\n%s"
                  % (prop, fp[0], fp[1], last_out[-1500:]), flush=True)
            return 2
        exit_code = 1

    if skipped:
        print("  further violation classes of this run (no replay file written): %s"
              % ", ".join(skipped[:40]), flush=True)

    # ---- determinism self-test (fresh interpreter, other hash seed)
    det_n = min(len(cases), getattr(engine, "DETERMINISM_SAMPLE", {}).get(tier, 6))
    det_ok = None
    if det_n and not os.environ.get("QSIM_SKIP_DETERMINISM"):
        rng = stream(seed, "determinism")
        idxs = sorted(rng.sample(range(len(cases)), det_n))
        hs = 1 + rng.randrange(4000)
        got = fresh_digests(engine_name, [cases[i] for i in idxs], hs)
        bad = [i for i, g in zip(idxs, got) if g != results[i]["digest"]]
        if bad and exit_code == 0:
            print("HARNESS-ERROR property=%s replay nondeterminism: case %d digest %s vs %s "
                  "(fresh interpreter, PYTHONHASHSEED=%d)"
                  % (prop, bad[0], results[bad[0]]["digest"],
                     got[idxs.index(bad[0])], hs), flush=True)
            return 2
        det_ok = {"cases": det_n, "hashseed": hs, "agree": not bad}

    # ---- a fault kind that never fired is a harness failure, not a pass
    expected = getattr(engine, "EXPECTED_FAULTS", {}).get(prop, [])
    silent = [f for f in expected if not faults.get(f)]
    wall = time.time() - t0
    samples = []
    for r in results:
        if r.get("sample") is not None:
            samples.append(r["sample"])
        if len(samples) >= 4:
            break
    if not samples:
        samples = cases[:2]
    cov = {
        "evaluations": int(n_eval),
        "distinct_nontrivial": len(keys),
        "rule": getattr(engine, "RULE", {}).get(prop, getattr(engine, "RULE", {}).get("*", "")),
        "samples": samples,
        "runs": len(cases),
        "runs_per_hour": int(len(cases) / max(wall, 1e-6) * 3600),
        "seeds": {"VERIF_SEED": seed, "run_seeds": "sha256(VERIF_SEED/property/tier/index)"},
        "simulated_time": {"amount": sim_time,
                           "unit": getattr(engine, "SIM_TIME_UNIT", "steps")},
        "faults_fired": faults,
        "probes": probes,
        "determinism_selftest": det_ok,
        "components": getattr(engine, "COMPONENTS", {}),
        "known_findings_reobserved": n_known,
        "exhaustive": bool(getattr(engine, "EXHAUSTIVE", {}).get((prop, tier), False)),
    }
    if extra_evidence:
        cov.update(extra_evidence)
    ev = {
        "property_id": prop,
        "tier": tier,
        "seed": seed,
        "level": level,
        "coverage": cov,
        "assumptions": getattr(engine, "ASSUMPTIONS", {}).get(prop, getattr(engine, "ASSUMPTIONS", {}).get("*", [])),
        "wall_s": round(wall, 2),
        "violations": n_viol,
    }
    if not os.environ.get("QSIM_NO_EVIDENCE"):
        os.makedirs(EVIDENCE_DIR, exist_ok=True)
        with open(os.path.join(EVIDENCE_DIR, prop + ".json"), "w") as fd:
            json.dump(ev, fd, indent=1, sort_keys=True, default=repr)
    print("qsim: %s runs=%d evaluations=%d distinct=%d faults=%s probes=%s wall=%.1fs"
          % (prop, len(cases), n_eval, len(keys), faults, probes, wall), flush=True)
    if silent and exit_code == 0:
        print("HARNESS-ERROR property=%s fault kind(s) never fired: %s" % (prop, silent),
              flush=True)
        return 2
    if exit_code == 0:
        print("OK property=%s held on everything explored" % prop, flush=True)
    return exit_code
