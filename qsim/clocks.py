"""Virtual clocks. Nothing in here reads a real clock."""
import sys
from datetime import datetime, timedelta


class VirtualMonotonic:
    """Stand-in for ``time.perf_counter`` (seam: ``ctparse.timers.perf_counter``).

    Each read returns ``now`` and then advances it by a delta, so "the deadline
    falls between read k-1 and read k" is a well-defined, enumerable fault.
    Never goes backwards (perf_counter is monotonic by contract).

    deltas: None -> 1 tick per read; list -> deltas[i % len] for read i
    stall_at/stall_by: read ``stall_at`` is followed by an extra jump (slow node)
    """

    def __init__(self, log, deltas=None, stall_at=None, stall_by=0.0):
        self.now = 0.0
        self.n = 0
        self.log = log
        self.deltas = deltas
        self.stall_at = stall_at
        self.stall_by = stall_by
        self.values = []

    def __call__(self):
        reader = sys._getframe(1).f_code.co_name
        v = self.now
        idx = self.n
        self.n += 1
        self.values.append(v)
        self.log.append(("read", reader, idx, v))
        d = 1.0 if not self.deltas else self.deltas[idx % len(self.deltas)]
        if self.stall_at is not None and idx == self.stall_at:
            d += self.stall_by
        self.now = v + d
        return v


class VirtualWall:
    """Host wall clock. ``now()`` is what the library sees through the seam
    ``sys.modules['ctparse.ctparse'].datetime``; every read is logged and
    advances the clock by ``read_advance`` (so two reads inside one call would
    differ - a torn reference time matches no single instant)."""

    def __init__(self, start, read_advance_us=0, utc_offset_s=0):
        # the simulated machine's local zone is UTC + utc_offset_s: now() is local time (what
        # the library must use), now(tz) / utcnow() answer for the same instant in UTC
        self.utc_offset = timedelta(seconds=utc_offset_s)
        self.t = start
        self.read_advance = timedelta(microseconds=read_advance_us)
        self.reads = []  # (global sequence number, instant)
        self.seq = 0

    def read(self):
        v = self.t
        self.reads.append((self.seq, v))
        self.t = v + self.read_advance
        return v

    def advance(self, **kw):
        self.t = self.t + timedelta(**kw)

    def set(self, t):
        self.t = t

    def datetime_class(self):
        wall = self

        class SimDateTime(datetime):
            @classmethod
            def now(cls, tz=None):
                v = wall.read()
                local = datetime(v.year, v.month, v.day, v.hour, v.minute, v.second,
                                 v.microsecond)
                if tz is None:
                    return local
                from datetime import timezone
                return (local - wall.utc_offset).replace(tzinfo=timezone.utc).astimezone(tz)

            @classmethod
            def utcnow(cls):
                v = wall.read()
                return datetime(v.year, v.month, v.day, v.hour, v.minute, v.second,
                                v.microsecond) - wall.utc_offset

            @classmethod
            def today(cls):
                return cls.now()

        return SimDateTime


def set_process_zone(offset_s):
    """The simulated machine's zone as the C library reports it (naive.astimezone(),
    time.localtime, datetime.fromtimestamp): a fixed offset, no DST rules, no tzdata needed.
    POSIX TZ strings count westwards, hence the inverted sign."""
    import os
    import time
    offset_s = int(offset_s or 0)
    if offset_s == 0:
        os.environ["TZ"] = "UTC0"
    else:
        h, rem = divmod(abs(offset_s), 3600)
        os.environ["TZ"] = "SIM%s%d:%02d" % ("-" if offset_s > 0 else "+", h, rem // 60)
    time.tzset()


def parse_ts(s):
    return datetime.fromisoformat(s)   # naive, or aware when the string carries an offset


def fmt_ts(t):
    if t.tzinfo is not None:
        return t.isoformat()
    if t.microsecond:
        return t.strftime("%Y-%m-%dT%H:%M:%S.%f")
    return t.strftime("%Y-%m-%dT%H:%M:%S")
