"""Self-tests of the simulator (not part of any verdict).

  ./check selftest determinism [ID ...] [--n N]
      a sample of cases of each property is executed (a) twice on pools with different
      worker counts and (b) in a fresh interpreter under another PYTHONHASHSEED; all event-log
      digests must agree.
  ./check selftest sensitivity [name ...] [--tier quick|thorough]
      every seeded breaking change under /verif/seeded/<name>/ (patch.diff + meta.json) is
      applied to a scratch copy of $VERIF_REPO under /dev/shm, the quick check of the property
      it breaks is run against the copy and must report a VIOLATION (exit 1); the copy is
      removed afterwards. Evidence files are not touched.
"""
import importlib
import json
import os
import shutil
import subprocess
import sys
import tempfile
import time

from . import core
from .registry import CHECKS


def main(argv):
    if not argv:
        print(__doc__)
        return 2
    if argv[0] == "determinism":
        return determinism(argv[1:])
    if argv[0] == "sensitivity":
        return sensitivity(argv[1:])
    print(__doc__)
    return 2


def determinism(argv):
    n = 24
    if "--n" in argv:
        i = argv.index("--n")
        n = int(argv[i + 1])
        argv = argv[:i] + argv[i + 2:]
    props = argv or sorted(CHECKS)
    seed = int(os.environ.get("VERIF_SEED", "0") or 0)
    core.use_repo()
    bad = 0
    for prop in props:
        eng_name = CHECKS[prop][0]
        eng = importlib.import_module("qsim.engines." + eng_name)
        cases = eng.plan(prop, "quick", seed)
        rng = core.stream(seed, "selftest/" + prop)
        idx = sorted(rng.sample(range(len(cases)), min(n, len(cases))))
        sample = [cases[i] for i in idx]
        if hasattr(eng, "prepare"):
            eng.prepare(sample, 16)
        t0 = time.time()
        a = [r["digest"] for r in core.run_pool(eng_name, sample, 3, chunk=1)]
        b = [r["digest"] for r in core.run_pool(eng_name, sample, 16, chunk=1)]
        hs = 1 + rng.randrange(4000)
        c = core.fresh_digests(eng_name, sample, hs)
        hs2 = 1 + rng.randrange(4000)
        d = core.fresh_digests(eng_name, sample[::-1], hs2)[::-1]
        diff = [i for i in range(len(sample)) if not (a[i] == b[i] == c[i] == d[i])]
        print("determinism %s: %d cases x 4 executions (pool of 3, pool of 16, fresh interpreter "
              "PYTHONHASHSEED=%d, fresh interpreter reversed order PYTHONHASHSEED=%d): %s (%.1fs)"
              % (prop, len(sample), hs, hs2,
                 "all digests agree" if not diff else "DIVERGED at sample indices %s" % diff[:5],
                 time.time() - t0), flush=True)
        if diff:
            bad += 1
            i = diff[0]
            print("  case:", json.dumps(sample[i], default=repr)[:600])
            print("  digests:", a[i], b[i], c[i], d[i])
    return 2 if bad else 0


def sensitivity(argv):
    tier = "quick"
    if "--tier" in argv:
        i = argv.index("--tier")
        tier = argv[i + 1]
        argv = argv[:i] + argv[i + 2:]
    root = os.path.join(core.VERIF_ROOT, "seeded")
    names = argv or sorted(d for d in os.listdir(root)
                           if os.path.exists(os.path.join(root, d, "meta.json")))
    missed = 0
    rows = []
    for name in names:
        meta = json.load(open(os.path.join(root, name, "meta.json")))
        props = meta.get("checks") or [meta["property"]]
        tmp = tempfile.mkdtemp(prefix="qsim-seeded-", dir="/dev/shm" if os.path.isdir("/dev/shm") else None)
        try:
            shutil.copytree(os.path.join(core.REPO, "ctparse"), os.path.join(tmp, "ctparse"),
                            ignore=shutil.ignore_patterns("__pycache__"))
            # only the package is copied to the scratch directory: hunks for README, HISTORY,
            # docs ... are left out
            p = subprocess.run(["git", "apply", "--unsafe-paths", "--include=*ctparse/*",
                                "--directory=" + tmp,
                                os.path.join(root, name, "patch.diff")],
                               cwd="/", stdout=subprocess.PIPE, stderr=subprocess.STDOUT, text=True)
            if p.returncode != 0:
                p = subprocess.run(["patch", "-p1", "-d", tmp, "-i",
                                    os.path.join(root, name, "patch.diff")],
                                   stdout=subprocess.PIPE, stderr=subprocess.STDOUT, text=True)
            if p.returncode != 0:
                print("sensitivity %s: patch does not apply: %s" % (name, p.stdout[-300:]))
                missed += 1
                continue
            d = subprocess.run(["diff", "-rq", os.path.join(core.REPO, "ctparse"),
                                os.path.join(tmp, "ctparse")], stdout=subprocess.PIPE, text=True)
            if not d.stdout.strip():
                print("sensitivity %s: patch changed nothing in the scratch copy" % name)
                missed += 1
                continue
            caught = []
            for prop in props:
                env = dict(os.environ)
                env.update({"VERIF_REPO": tmp, "QSIM_NO_EVIDENCE": "1",
                            "QSIM_REPLAY_DIR": os.path.join(tmp, "replays"),
                            "QSIM_SKIP_DETERMINISM": "1"})
                env.pop("QSIM_REEXEC", None)
                t0 = time.time()
                r = subprocess.run([os.path.join(core.VERIF_ROOT, "check"), prop, "--tier", tier],
                                   env=env, stdout=subprocess.PIPE, stderr=subprocess.STDOUT,
                                   text=True)
                lines = [l for l in r.stdout.splitlines() if "oracle=" in l and "KNOWN" not in l]
                caught.append((prop, r.returncode, time.time() - t0,
                               [l.strip().split(" occurrences")[0] for l in lines][:3]))
            ok = any(rc == 1 for _, rc, _, _ in caught)
            if not ok:
                missed += 1
            for prop, rc, dt, lines in caught:
                print("sensitivity %-28s breaks %s: check %s exit=%d (%.0fs) %s %s"
                      % (name, meta["property"], prop, rc, dt,
                         "CAUGHT" if rc == 1 else ("MISSED" if rc == 0 else "HARNESS-ERROR"),
                         "; ".join(lines)), flush=True)
            rows.append((name, ok))
        finally:
            shutil.rmtree(tmp, ignore_errors=True)
    print("sensitivity: %d of %d seeded changes caught" % (len(rows) - sum(1 for _, ok in rows if not ok),
                                                          len(names)))
    return 1 if missed else 0
