"""Executable reference model of "what the rules license" (C15).

Specification inputs: the registered patterns (``ctparse.rule._regex``) and the
registered rules (``ctparse.rule.rules``: production function + predicate list).
Nothing of the search is shared: own matcher (anchored ``match`` at every
offset instead of ``finditer(overlapped=True)``), own enumeration of maximal
gap-free sequences (plain recursion over an adjacency relation instead of the
column-sum matrix), own window matcher (instead of ``_match_rule`` /
``_seq_match`` / ``_filter_rules``), productions applied to *copies* of their
arguments, closure to fixpoint without any pruning.
"""
import copy

from qsim.core import vkey, tkey


class TooBig(Exception):
    pass


def all_matches(lib, text):
    RegexMatch = lib["types"].RegexMatch
    seen = {}
    for rid, pat in lib["rule"]._regex.items():
        for pos in range(len(text)):
            m = pat.match(text, pos)
            if m is None:
                continue
            rm = RegexMatch(rid, m)
            if rm.mend <= rm.mstart:
                continue
            seen.setdefault((rm.mstart, rm.mend, rid), rm)
    return [seen[k] for k in sorted(seen)]


def _adjacent(text, a, b):
    if b.mstart < a.mend:
        return False
    return text[a.mend:b.mstart].strip() == "" if True else False


def _ws_only(s):
    # the separator between two consecutive matches may only be whitespace (\s*)
    return all(ch.isspace() for ch in s)


def sequences(lib, text, ms=None, cap=20000):
    """All maximal gap-free sequences (begin at a match without predecessor, end at a
    match without successor)."""
    if ms is None:
        ms = all_matches(lib, text)
    n = len(ms)
    succ = [[] for _ in range(n)]
    has_pred = [False] * n
    for i in range(n):
        for j in range(n):
            if i == j:
                continue
            a, b = ms[i], ms[j]
            if b.mstart >= a.mend and _ws_only(text[a.mend:b.mstart]):
                succ[i].append(j)
                has_pred[j] = True
    out = []

    def rec(path):
        if len(out) > cap:
            raise TooBig("sequences")
        i = path[-1]
        if not succ[i]:
            out.append(tuple(ms[k] for k in path))
            return
        for j in succ[i]:
            rec(path + [j])

    for i in range(n):
        if not has_pred[i]:
            rec([i])
    return out


def covered(seq):
    return seq[-1].mend - seq[0].mstart


def initial_sequences(lib, text, relative_match_len=1.0, cap=20000):
    seqs = sequences(lib, text, cap=cap)
    if not seqs:
        return []
    mx = max(covered(s) for s in seqs)
    return [s for s in seqs if covered(s) >= mx * relative_match_len]


def _is_regex(a):
    return type(a).__name__ == "RegexMatch"


def elem_key(a):
    if _is_regex(a):
        return ("R", a.id, a.mstart, a.mend)
    return (tkey(vkey(a)), a.mstart, a.mend)


def state_key(state):
    return tuple(elem_key(a) for a in state)


def _copy(a):
    # RegexMatch wraps a C match object; productions only read it
    return a if _is_regex(a) else copy.deepcopy(a)


def successors(lib, ts, state, only_rule=None, errors=None):
    """All (rule name, new state) obtained by one rule application at any window."""
    out = []
    rules = lib["rule"].rules
    items = rules.items() if only_rule is None else (
        [(only_rule, rules[only_rule])] if only_rule in rules else [])
    n = len(state)
    for name, (fn, pats) in items:
        k = len(pats)
        if k == 0 or k > n:
            continue
        for i in range(0, n - k + 1):
            ok = True
            for j in range(k):
                if not pats[j](state[i + j]):
                    ok = False
                    break
            if not ok:
                continue
            args = [_copy(a) for a in state[i:i + k]]
            try:
                res = fn(ts, *args)
            except Exception as e:  # totality is C01's business; the model records it
                if errors is not None:
                    errors.append((name, "%s: %s" % (type(e).__name__, e)))
                continue
            if res is None:
                continue
            out.append((name, tuple(state[:i]) + (res,) + tuple(state[i + k:])))
    return out


class Closure:
    """Reachable states of the derivation graph for (text, ts)."""

    def __init__(self, lib, text, ts, relative_match_len=1.0, cap=20000):
        self.lib, self.text, self.ts = lib, text, ts
        self.errors = []
        self.initial = initial_sequences(lib, text, relative_match_len, cap=cap)
        self.derivable = set()       # (value key, mstart, mend)
        self.derivable_values = set()
        self.terminal_values = set()  # value keys of fully reduced derivations
        self.n_states = 0
        self.n_transitions = 0
        seen = set()
        todo = []
        for s in self.initial:
            k = state_key(s)
            if k not in seen:
                seen.add(k)
                todo.append(s)
        while todo:
            st = todo.pop()
            self.n_states += 1
            if self.n_states > cap:
                raise TooBig("closure")
            for a in st:
                if not _is_regex(a):
                    self.derivable.add(elem_key(a))
                    self.derivable_values.add(tkey(vkey(a)))
            succ = successors(lib, ts, st, errors=self.errors)
            self.n_transitions += len(succ)
            if not succ:
                for a in st:
                    if not _is_regex(a):
                        self.terminal_values.add(tkey(vkey(a)))
            for _, ns in succ:
                k = state_key(ns)
                if k not in seen:
                    seen.add(k)
                    todo.append(ns)

    def replay(self, production, cap=20000):
        """Element keys reachable by applying exactly the reported production:
        leading pattern ids select the initial sequence(s), then the rule names in order."""
        ids = [p for p in production if isinstance(p, int)]
        names = [p for p in production if not isinstance(p, int)]
        if list(production) != ids + names:
            return None  # malformed trace: ids must come first
        frontier = {}
        for s in self.initial:
            if [m.id for m in s] == ids:
                frontier[state_key(s)] = s
        for name in names:
            nxt = {}
            for st in frontier.values():
                for _, ns in successors(self.lib, self.ts, st, only_rule=name):
                    nxt.setdefault(state_key(ns), ns)
                    if len(nxt) > cap:
                        raise TooBig("replay")
            frontier = nxt
            if not frontier:
                break
        out = set()
        for st in frontier.values():
            for a in st:
                if not _is_regex(a):
                    out.add(elem_key(a))
        return out
