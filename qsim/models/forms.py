"""Surface forms per concept, expanded by hand from the alternatives of the rules' own
patterns (each table cites its rule). A form is a dict
    {"c": concept, "p": params, "s": surface text, "t": template (numbers abstracted)}
The template is what violation classes are keyed by.
"""

# ruleNamedDOW (rules.py:22-40): long forms and 3-letter forms; the 2-letter German
# abbreviations are a separate class ("short")
DOW_LONG = [
    ["monday", "montag", "mon", "mondays", "montags"],
    ["tuesday", "dienstag", "tue", "tuesdays", "dienstags"],
    ["wednesday", "mittwoch", "wed", "mittwochs"],
    ["thursday", "donnerstag", "thu", "thur", "donnerstags"],
    ["friday", "freitag", "fri", "freitags"],
    ["saturday", "samstag", "sat", "sonnabend", "samstags"],
    ["sunday", "sonntag", "sun", "sonntags"],
]
DOW_SHORT = [["mo", "mo."], ["di", "di.", "die."], ["mi", "mi."], ["do", "do.", "don"],
             ["fr", "fr."], ["sa", "sa."], ["so", "so."]]

# ruleNamedMonth (rules.py:43-66)
MONTHS = [
    ["january", "januar", "jan"], ["february", "februar", "feb"], ["march", "märz", "mar"],
    ["april", "apr"], ["may", "mai"], ["june", "juni", "jun"], ["july", "juli", "jul"],
    ["august", "aug"], ["september", "sept", "sep"], ["october", "oktober", "oct", "okt"],
    ["november", "nov"], ["december", "dezember", "dec", "dez"],
]

REL = {  # rules.py:203-257
    "today": (0, ["today", "heute", "todays", "at this time", "um diese zeit", "zu dieser zeit",
                  "um diesen zeitpunkt", "zu diesem zeitpunkt"]),
    "tomorrow": (1, ["tomorrow", "morgen", "tmr", "tmrw", "tommorrow", "tomorow", "tomorrows"]),
    "aftertomorrow": (2, ["übermorgen"]),
    "yesterday": (-1, ["yesterday", "gestern", "yesterdays"]),
    "beforeyesterday": (-2, ["vorgestern", "vor gestern"]),
}
NOW = ["now", "jetzt", "genau jetzt", "genaujetzt", "just now", "right now", "rightnow",
       "diesen moment", "in diesem moment", "gerade eben", "immediately"]
EOM = ["eom", "end of month", "end of the month", "the end of the month", "the eom",
       "ende des monats", "das ende des monats", "ende dieses monats", "ende des monat"]
EOY = ["eoy", "end of year", "end of the year", "the end of the year", "the eoy",
       "jahresende", "jahr ende", "jahrende", "ende des jahres", "ende jahres", "das jahresende",
       "ende des jahr"]
THIS = ["this {w}", "on {w}", "am {w}", "diesen {w}", "diesem {w}", "at {w}"]   # ruleAtDOW
NEXT = ["next {w}", "following {w}", "nächsten {w}", "kommenden {w}", "am nächsten {w}",
        "on the next {w}", "the following {w}", "am kommenden {w}", "nächste {w}",
        "next week {w}", "nächste woche {w}", "den nächsten {w}"]               # ruleNextDOW
NEXTWEEK = ["{w} next week", "{w} following week", "{w} nächste woche",
            "{w} kommende woche"]                                                # ruleDOWNextWeek


def _pick_dow(rng, w, allow_short=False):
    pool = DOW_LONG[w] + (DOW_SHORT[w] if allow_short else [])
    return rng.choice(pool)


def c03_forms(rng, n):
    out = []
    for _ in range(n):
        r = rng.random()
        if r < 0.3:
            k = rng.choice(sorted(REL))
            s = rng.choice(REL[k][1])
            out.append({"c": "rel", "p": [REL[k][0]], "s": s, "t": "rel:" + s})
        elif r < 0.38:
            s = rng.choice(NOW)
            out.append({"c": "now", "p": [], "s": s, "t": "now:" + s})
        elif r < 0.46:
            s = rng.choice(EOM)
            out.append({"c": "eom", "p": [], "s": s, "t": "eom:" + s})
        elif r < 0.54:
            s = rng.choice(EOY)
            out.append({"c": "eoy", "p": [], "s": s, "t": "eoy:" + s})
        else:
            w = rng.randrange(7)
            name = _pick_dow(rng, w)
            if rng.random() < 0.2:
                # abbreviations written with their dot ("fri. next week", "nächsten mo.")
                name = rng.choice([["mon.", "tue.", "wed.", "thu.", "fri.", "sat.", "sun."][w],
                                   ["mo.", "di.", "mi.", "do.", "fr.", "sa.", "so."][w]])
            kind = rng.choice(["this", "this", "next", "next", "nextweek", "bare"])
            if kind == "bare":
                out.append({"c": "dow_after", "p": [w], "s": name, "t": "dow:{w}"})
            elif kind == "this":
                tpl = rng.choice(THIS)
                out.append({"c": "dow_after", "p": [w], "s": tpl.format(w=name), "t": "this:" + tpl})
            elif kind == "next":
                tpl = rng.choice(NEXT)
                if rng.random() < 0.4:
                    # any alternative of ruleNextDOW's own pattern (grammatical or not):
                    # (am )?(dem |den )?(kommende[n]|nächste[n])( woche)? / (on |at )?(the )?(next|following)( week)?
                    if rng.random() < 0.6:
                        tpl = rng.choice(["", "am "]) + rng.choice(["", "dem ", "den "]) + \
                            rng.choice(["kommende", "kommenden", "nächste", "nächsten"]) + \
                            rng.choice(["", " woche"]) + " {w}"
                    else:
                        tpl = rng.choice(["", "on ", "at "]) + rng.choice(["", "the "]) + \
                            rng.choice(["next", "following"]) + rng.choice(["", " week"]) + " {w}"
                    if rng.random() < 0.2:
                        # the two-letter German abbreviations are unambiguous after such a prefix
                        name = ["mo", "di", "mi", "do", "fr", "sa", "so"][w]
                out.append({"c": "dow_next", "p": [w], "s": tpl.format(w=name), "t": "next:" + tpl})
            else:
                tpl = rng.choice(NEXTWEEK)
                out.append({"c": "dow_next", "p": [w], "s": tpl.format(w=name),
                            "t": "nextweek:" + tpl})
    return out


def c03_all_forms():
    """every surface form once (thorough walker)"""
    out = []
    for k in sorted(REL):
        for s in REL[k][1]:
            out.append({"c": "rel", "p": [REL[k][0]], "s": s, "t": "rel:" + s})
    for s in NOW:
        out.append({"c": "now", "p": [], "s": s, "t": "now:" + s})
    for s in EOM:
        out.append({"c": "eom", "p": [], "s": s, "t": "eom:" + s})
    for s in EOY:
        out.append({"c": "eoy", "p": [], "s": s, "t": "eoy:" + s})
    for w in range(7):
        for name in DOW_LONG[w][:3]:
            out.append({"c": "dow_after", "p": [w], "s": name, "t": "dow:{w}"})
            for tpl in THIS:
                out.append({"c": "dow_after", "p": [w], "s": tpl.format(w=name), "t": "this:" + tpl})
            for tpl in NEXT:
                out.append({"c": "dow_next", "p": [w], "s": tpl.format(w=name), "t": "next:" + tpl})
            for tpl in NEXTWEEK:
                out.append({"c": "dow_next", "p": [w], "s": tpl.format(w=name),
                            "t": "nextweek:" + tpl})
    return out


# ---- C04 -----------------------------------------------------------------
def _ord_en(n):
    if 10 <= n % 100 <= 20:
        return "%dth" % n
    return "%d%s" % (n, {1: "st", 2: "nd", 3: "rd"}.get(n % 10, "th"))


# ruleDOM1 / ruleDOM2 + ruleAbsorbOnTime. Excluded as genuinely bilingual-ambiguous:
# "{n}ten" - the German ordinal suffix "ten" is also the English named hour "ten"
# ("29ten" = the 29th at ten o'clock; both readings cover the whole text)
DOM_TPL = ["{n}.", "{o}", "am {n}.", "the {o}", "on the {o}", "den {n}.", "am {n}.",
           "der {n}.", "this {o}", "diesen {n}."]
DOY_TPL = ["{d}.{m}.", "{d}.{m}", "{d:02d}.{m:02d}.", "{d}. {M}", "{d} {M}", "{M} {d}", "{M} {o}",
           "{o} of {M}", "{o} {M}", "am {d}.{m}.", "on {M} {o}", "{d}/{m}x", "{m}/{d}y"]
# ruleDDMM / ruleMMDD / ruleDOMMonth / ruleMonthDOM / ruleDOMMonth2
POD_FORMS = [  # (surface, part-of-day key) rules.py:122-155 and :112-119
    ("morning", "morning"), ("morgens", "morning"), ("in the morning", "morning"),
    ("forenoon", "forenoon"), ("vormittag", "forenoon"), ("vormittags", "forenoon"),
    ("noon", "noon"), ("mittag", "noon"), ("mittags", "noon"), ("at noon", "noon"),
    ("afternoon", "afternoon"), ("nachmittag", "afternoon"), ("nachmittags", "afternoon"),
    ("in the afternoon", "afternoon"), ("am nachmittag", "afternoon"),
    ("evening", "evening"), ("abend", "evening"), ("abends", "evening"), ("tonight", "evening"),
    ("in the evening", "evening"), ("am abend", "evening"),
    ("night", "night"), ("nachts", "night"), ("at night", "night"),
    ("early morning", "earlymorning"), ("late morning", "latemorning"),
    ("early afternoon", "earlyafternoon"), ("late afternoon", "lateafternoon"),
    ("early evening", "earlyevening"), ("late evening", "lateevening"),
    ("später nachmittag", "lateafternoon"), ("früher abend", "earlyevening"),
    ("am späten nachmittag", "lateafternoon"), ("very early", "earlymorning"),
    ("sehr früh", "earlymorning"), ("very late", "lateevening"), ("sehr spät", "lateevening"),
    ("first", "first"), ("earliest", "first"), ("as early as possible", "first"),
    ("last", "last"), ("latest", "last"), ("as late as possible", "last"),
    ("late night", "latenight"), ("very early morning", "veryearlymorning"),
]


def _doy_form(rng, d, m, tpl=None):
    tpl = tpl or rng.choice(DOY_TPL)
    M = rng.choice(MONTHS[m - 1])
    if tpl == "{d}/{m}x":          # dd/mm is only unambiguous for d > 12
        if d <= 12:
            tpl = "{d}.{m}."
        else:
            return {"c": "doy", "p": [d, m], "s": "%d/%d" % (d, m), "t": "doy:{d}/{m}"}
    if tpl == "{m}/{d}y":          # mm/dd only for d > 12
        if d <= 12:
            tpl = "{d}. {M}"
        else:
            return {"c": "doy", "p": [d, m], "s": "%d/%d" % (m, d), "t": "doy:{m}/{d}"}
    return {"c": "doy", "p": [d, m], "s": tpl.format(d=d, m=m, M=M, o=_ord_en(d)),
            "t": "doy:" + tpl}


def c04_forms(rng, n):
    out = []
    for _ in range(n):
        r = rng.random()
        if r < 0.2:
            w = rng.randrange(7)
            out.append({"c": "dow_after", "p": [w], "s": _pick_dow(rng, w), "t": "dow:{w}"})
        elif r < 0.25:
            w = rng.randrange(7)
            out.append({"c": "dow_after", "p": [w], "s": rng.choice(DOW_SHORT[w]),
                        "t": "dowshort:" + DOW_SHORT[w][0]})
        elif r < 0.5:
            nn = rng.choice([1, 2, 5, 10, 15, 20, 27, 28, 29, 30, 31, 31, 30, 29, rng.randint(1, 31)])
            tpl = rng.choice(DOM_TPL)
            out.append({"c": "dom", "p": [nn], "s": tpl.format(n=nn, o=_ord_en(nn)),
                        "t": "dom:" + tpl})
        elif r < 0.8:
            m = rng.randint(1, 12)
            if rng.random() < 0.25:
                m, d = 2, rng.choice([28, 29, 29])
            else:
                import calendar as _c
                d = rng.randint(1, _c.monthrange(2020, m)[1])
            out.append(_doy_form(rng, d, m))
        elif r < 0.93:
            s, pod = rng.choice(POD_FORMS)
            out.append({"c": "pod", "p": [pod], "s": s, "t": "pod:" + s})
        else:
            # weekday + day of month (ruleDOWDOM): "Monday 31st", "Montag der 5."
            w = rng.randrange(7)
            nn = rng.choice([1, 5, 13, 28, 29, 30, 31, 31, 30, rng.randint(1, 31)])
            tpl = rng.choice(["{w} {o}", "{w} the {o}", "{w} {n}.", "{w} der {n}.", "{w} den {n}."])
            out.append({"c": "dowdom", "p": [w, nn],
                        "s": tpl.format(w=_pick_dow(rng, w), n=nn, o=_ord_en(nn)),
                        "t": "dowdom:" + tpl})
    return out


def c04_all_forms(rng):
    """a fixed battery for the thorough walker: all weekdays, all days of month, a spread
    of day+month pairs incl. 29 Feb, all parts of day"""
    out = []
    for w in range(7):
        for name in DOW_LONG[w][:3]:
            out.append({"c": "dow_after", "p": [w], "s": name, "t": "dow:{w}"})
    for nn in range(1, 32):
        for tpl in DOM_TPL[:4]:
            out.append({"c": "dom", "p": [nn], "s": tpl.format(n=nn, o=_ord_en(nn)),
                        "t": "dom:" + tpl})
    import calendar as _c
    for m in range(1, 13):
        for d in sorted({1, 15, _c.monthrange(2020, m)[1], _c.monthrange(2019, m)[1]}):
            for tpl in ("{d}.{m}.", "{d}. {M}", "{M} {o}"):
                out.append(_doy_form(rng, d, m, tpl))
    for s, pod in POD_FORMS:
        out.append({"c": "pod", "p": [pod], "s": s, "t": "pod:" + s})
    return out


# ---- C05 -----------------------------------------------------------------
ABS_TPL = ["{d:02d}.{m:02d}.{y}", "{d}.{m}.{y}", "{d:02d}/{m:02d}/{y}", "{d:02d}-{m:02d}-{y}",
           "{d}/{m}/{y}", "{d}-{m}-{y}", "{d}. {M} {y}", "{d} {M} {y}", "{M} {d} {y}",
           "{M} {o} {y}", "{o} of {M} {y}", "{o} {M} {y}", "{d}.{M}.{y}",
           "{d:02d}.{m:02d}.{yy:02d}", "{d}.{m}.{yy:02d}",
           # written without blanks (05MAR2021, 5Mar2021, 31 Jan2029)
           "{d:02d}{M}{y}", "{d}{M}{y}", "{d} {M}{y}"]
ABS_CLOCK = ["", "", " {h}:{mi:02d}", " {h:02d}:{mi:02d}", " {h}:{mi:02d}:{ss:02d}",
             " um {h}:{mi:02d} uhr",
             " at {h}:{mi:02d}", " {h}:{mi:02d} uhr", " {h12}:{mi:02d} {ap}", " at {h12}:{mi:02d}{ap}",
             " {h12}.{mi:02d} {ap}", " {h}.{mi:02d} uhr", " {h:02d}.{mi:02d} uhr",
             " {h:02d}{mi:02d} uhr"]
# clocks given to the hour only (the minute of the answer is 0 or left unset)
ABS_CLOCK_HOUR = [" {h} uhr", " {h12} {ap}", " at {h12} {ap}", " {h}h", " {h12} o'clock",
                  " um {h} uhr", " {h12}{ap}"]
MONTHNAME_TPLS = {t for t in ABS_TPL if "{M}" in t}


def is_military_year(y):
    """stand-alone 4-digit years that read as hh:mm with mm a multiple of 5 (C05 quantifier)"""
    return 0 <= y // 100 <= 23 and y % 100 <= 59 and (y % 100) % 5 == 0


def style_ampm(rng, s):
    """the am / pm marker after a digit in another customary spelling (AM, a.m., P.M.); the
    German preposition "am" (never directly after a digit) is left alone"""
    import re as _re

    def sub(m):
        a = m.group(2)
        v = rng.choice([a.upper(), a[0] + "." + a[1] + ".", (a[0] + "." + a[1] + ".").upper(),
                        a[0].upper() + a[1]])
        return m.group(1) + v
    return _re.sub(r"(\d ?)(am|pm)\b(?!\.)", sub, s)


def c05_forms(rng, n):
    import calendar as _c
    out = []
    while len(out) < n:
        y = rng.randint(1990, 2029)
        m = rng.randint(1, 12)
        d = rng.choice([1, 2, 9, 10, 12, 13, 28, 29, 30, 31, rng.randint(1, 31)])
        if rng.random() < 0.15:
            # calendar corner dates: every 29 February of the range (2000 is a leap year by the
            # 400-rule), the day before, year ends and starts
            y, m, d = rng.choice(
                [(yy, 2, 29) for yy in range(1992, 2029, 4)] + [(2000, 2, 29)] * 3
                + [(2000, 2, 28), (2000, 3, 1), (1999, 12, 31), (2000, 1, 1), (2001, 2, 28),
                   (2019, 12, 31), (2020, 1, 1), (2024, 2, 29), (2029, 12, 31), (1990, 1, 1)])
        if d > _c.monthrange(y, m)[1]:
            continue
        tpl = rng.choice(ABS_TPL)
        if tpl in MONTHNAME_TPLS and is_military_year(y):
            continue
        two_digit = "{yy" in tpl
        M = rng.choice(MONTHS[m - 1])
        ck = rng.choice(ABS_CLOCK)
        h = rng.randint(0, 23)
        mi = rng.choice([0, 5, 7, 30, 45, 59, rng.randint(0, 59)])
        if ck and rng.random() < 0.2:
            # a clock that repeats digits of the date itself (hour = month or day, minute =
            # century, month or two-digit year)
            h, mi = rng.choice([(m, y // 100), (d % 24, m), (m, y % 100 if y % 100 < 60 else m),
                                (d % 24, y // 100), (m + 12 if m < 12 else m, y // 100)])
        mil_clock = None
        if ck == " {h:02d}{mi:02d} uhr":
            # four digits + clock word next to a date; half of them spell a year of this century
            if rng.random() < 0.5:
                h, mi = 20, rng.choice([15, 18, 20, 21, 24, 25, 30, 33, 40])
            mil_clock = [h, mi]
        hour_only = False
        if ck and mil_clock is None and rng.random() < 0.15:
            ck = rng.choice(ABS_CLOCK_HOUR)
            mi, hour_only = 0, True
            if "o'clock" in ck:
                h = h % 12 or 12       # "5 o'clock" says nothing about am / pm
        if ".{mi" in ck and mi <= 12:
            # "7.05 am" is itself a well-formed dd.mm date (and "am" the German "on"): a dotted
            # clock stands next to a date only where its minute cannot be a month (appendix A)
            ck = ck.replace(".{mi", ":{mi")
        h12 = h % 12 or 12
        ap = "am" if h < 12 else "pm"
        ds = tpl.format(d=d, m=m, y=y, yy=y % 100, M=M, o=_ord_en(d))
        cs = ck.format(h=h, mi=mi, h12=h12, ap=ap, ss=rng.choice([0, 7, 30, 59])).strip()
        order = "date-clock"
        # (a clock with seconds only AFTER the date: the rule base knows no seconds, a trailing
        # ":ss" is dropped there, while in front of a date the same characters start other
        # matches - not a notation the property names)
        if cs and rng.random() < 0.25 and "{ss" not in ck:
            # clock part first (ruleTODDate), optionally joined by on/am
            if cs.startswith(("um ", "at ")):
                cs = cs[3:]
            # (a German "am <day>" directly after an English am/pm suffix is bilingual noise)
            # and "12:xx am <day>" is genuinely ambiguous between 00:xx and German "am" (C20
            # excludes it for the same reason)
            # (... and "1 o'clock am <date>" reads as "1 o'clock a.m.")
            j = rng.choice([" ", " on "] + ([" am "] if "{ap}" not in ck and h != 12
                                            and "o'clock" not in ck else []))
            s = cs + j + ds
            order = "clock" + j.replace(" ", "_") + "date"
        else:
            s = ds + (" " + cs if cs else "")
        p = [y, m, d] + ([h, mi] if ck else [])
        if order == "date-clock":
            t = "abs:" + tpl + "|" + ("" if not cs else order)
        else:
            t = "abs:" + order + ":" + ("monthname" if tpl in MONTHNAME_TPLS else "numeric")
        if rng.random() < 0.1:
            # brackets / a trailing comma: pre-processing turns them into blanks
            s = rng.choice(["(%s)", "%s,", "[%s]", "%s ;"]) % s
        if rng.random() < 0.15:
            s = style_ampm(rng, s)
        if hour_only and tpl in MONTHNAME_TPLS:
            t = "abs:monthname+hour-only-clock|" + order
        if two_digit and y < 2000:
            t = "abs:dd.mm.yy-19yy"
        out.append({"c": "abs", "p": p, "s": s, "t": t, "two_digit": two_digit,
                    "hour_only": hour_only, "mil_clock": mil_clock})
    return out


# ---- C06 -----------------------------------------------------------------
NAMED_EN = ["one", "two", "three", "four", "five", "six", "seven", "eight", "nine", "ten",
            "eleven", "twelve"]
NAMED_DE = ["eins", "zwei", "drei", "vier", "fünf", "sechs", "sieben", "acht", "neun", "zehn",
            "elf", "zwölf"]


def c06_forms(rng, n, year_hint=2020):
    out = []
    while len(out) < n:
        h = rng.randint(0, 23)
        mi = rng.choice([0, 0, 15, 30, 45, 5, 59, rng.randint(0, 59)])
        h12 = h % 12 or 12
        ap = "am" if h < 12 else "pm"
        t12 = (":12" + ap) if h12 == 12 else ""
        kinds = ["24", "24z", "12", "12tight", "uhr", "h", "mil", "spoken", "named", "pod",
                 "12dot", "midnight", "miluhr", "mil12"]
        k = rng.choice(kinds)
        f = None
        if k == "24":
            f = ("%d:%02d" % (h, mi), "{h}:{mm}")
        elif k == "24z":
            f = ("%02d:%02d" % (h, mi), "{hh}:{mm}")
        elif k == "12":
            if mi == 0 and rng.random() < 0.5:
                f = ("%d %s" % (h12, ap), "{h12} ap" + t12)
            else:
                f = ("%d:%02d %s" % (h12, mi, ap), "{h12}:{mm} ap" + t12)
        elif k == "12tight":
            if mi == 0:
                f = ("%d%s" % (h12, ap), "{h12}ap" + t12)
            else:
                f = ("%d:%02d%s" % (h12, mi, ap), "{h12}:{mm}ap" + t12)
        elif k == "12dot":
            f = ("%d.%02d %s" % (h12, mi, ap), "{h12}.{mm} ap" + t12)
        elif k == "uhr":
            if mi == 0:
                f = ("%d uhr" % h, "{h} uhr")
            else:
                f = rng.choice([("%d:%02d uhr" % (h, mi), "{h}:{mm} uhr"),
                                ("%duhr%02d" % (h, mi), "{h}uhr{mm}")])
        elif k == "h":
            f = ("%dh%02d" % (h, mi), "{h}h{mm}") if mi else ("%dh" % h, "{h}h")
        elif k == "mil":
            if rng.random() < 0.3:
                # 20xx: the digits can spell a year close to the reference year
                h, mi = 20, rng.choice([15, 20, 25, 30, 35, 40, 45])
            if mi % 5:
                continue
            f = ("%02d%02d" % (h, mi), "{hh}{mm}")
        elif k == "mil12":
            # four digits followed by am/pm ("0820 pm"): the 12h marker on the military form
            if mi % 5 or rng.random() < 0.5:
                h, mi = rng.choice([20, 20, 8, 21, 0, 12, 23, 11]), rng.choice([15, 20, 25, 30, 35, 40])
            h12 = h % 12 or 12
            ap = "am" if h < 12 else "pm"
            t12 = (":12" + ap) if h12 == 12 else ""
            f = (rng.choice(["%02d%02d %s", "%02d%02d%s"]) % (h12, mi, ap), "{hh12}{mm} ap" + t12)
        elif k == "miluhr":
            # four digits followed by a clock word: the military-time heuristics (multiple of
            # 5, "looks like the current year") do not apply (rules.py:462-466)
            if rng.random() < 0.5:
                h = 20            # 20xx: the digits can equal the reference year
            f = rng.choice([("%02d%02d uhr" % (h, mi), "{hh}{mm} uhr"),
                            ("%02d%02dh" % (h, mi), "{hh}{mm}h"),
                            ("%02d%02d Uhr" % (h, mi), "{hh}{mm} uhr")])
        elif k == "spoken":
            if mi not in (15, 30, 45):
                continue
            if mi == 15:
                H = h
                tpl = rng.choice(["quarter past {H}", "quarter after {H}", "viertel nach {H}",
                                  "a quarter past {H}"])
            elif mi == 30:
                tpl = rng.choice(["half past {H}", "halb {H1}", "half {H1}"])
                H = h
            else:
                tpl = rng.choice(["quarter to {H1}", "viertel vor {H1}", "quarter before {H1}",
                                  "a quarter to {H1}"])
                H = h
            H1 = H + 1
            if not (1 <= H <= 12) and "{H}" in tpl:
                continue
            if not (1 <= H1 <= 12) and "{H1}" in tpl:
                continue
            named = rng.random() < 0.4
            de = "viertel" in tpl or "halb" in tpl

            # the hour may carry its own clock word ("quarter past 5 o'clock", "halb 8 uhr")
            suffix = rng.choice(["", "", "", " uhr"] if de else ["", "", "", " o'clock", " oclock"])

            def w(x):
                return ((NAMED_DE if de else NAMED_EN)[x - 1] if named else str(x)) + suffix
            f = (tpl.format(H=w(H) if 1 <= H <= 12 else H, H1=w(H1) if 1 <= H1 <= 12 else H1),
                 "spoken:" + tpl + (":named" if named else "") + (":" + suffix.strip() if suffix else ""))
            if not suffix and rng.random() < 0.3:
                # ... followed by a part of day that says which half of the day is meant
                # ("quarter to one in the afternoon" = 12:45, "halb acht abends" = 19:30)
                hr = h  # the hour the spoken form denotes on the 12-hour dial (0..12)
                opts = []
                if 1 <= hr <= 11:
                    opts.append((rng.choice(["in the morning", "morgens"]), hr))
                if 1 <= hr <= 5 or hr in (0, 12):
                    opts.append((rng.choice(["in the afternoon", "nachmittags"]),
                                 12 if hr in (0, 12) else hr + 12))
                if 5 <= hr <= 11:
                    opts.append((rng.choice(["in the evening", "abends"]), hr + 12))
                if opts:
                    pw, h24 = rng.choice(opts)
                    f = (f[0] + " " + pw, "spokenpod:" + tpl + " <part of day>")
                    h = h24
        elif k == "named":
            if mi or not (1 <= h <= 12):
                continue
            tpl = rng.choice(["{N}", "{N} uhr", "{N} o'clock", "{N} oclock"])
            lang = rng.choice([NAMED_EN, NAMED_DE])
            f = (tpl.format(N=lang[h - 1]), "named:" + tpl)
        elif k == "pod":
            if mi and rng.random() < 0.5:
                continue
            if 1 <= h <= 11:
                pw = rng.choice(["in the morning", "morgens", "vormittags",
                                 "in the early morning", "in the late morning", "am vormittag"])
            elif 13 <= h <= 17:
                pw = rng.choice(["in the afternoon", "nachmittags", "in the late afternoon",
                                 "in the early afternoon", "am späten nachmittag",
                                 "am nachmittag"])
            elif 18 <= h <= 23:
                pw = rng.choice(["in the evening", "abends", "at night", "in the early evening",
                                 "in the late evening", "late at night", "am frühen abend",
                                 "am abend"])
            elif h == 12:
                pw = rng.choice(["mittags", "am mittag", "am vormittag"])
            else:
                continue
            hh = h if h <= 12 else h - 12
            if h == 12 or (rng.random() < 0.25 and pw.split()[0] in (
                    "am", "vormittags", "nachmittags", "abends", "morgens")
                    and pw != "am späten nachmittag" and pw != "am frühen abend"):
                # digits + clock word + German part of day ("3 uhr am nachmittag",
                # "12 uhr am mittag"): the preposition "am" directly after the clock word
                if pw in ("in the afternoon",):
                    pw = "am nachmittag"
                cw = rng.choice([" uhr", " uhr", "h"])
                f = (("%d:%02d%s %s" % (hh, mi, cw if cw == " uhr" else " uhr", pw)) if mi
                     else ("%d%s %s" % (hh, cw, pw)),
                     "pod:{h}:{mm} uhr %s" % pw if mi else "pod:{h} uhr %s" % pw)
            else:
                f = (("%d:%02d %s" % (hh, mi, pw)) if mi else ("%d %s" % (hh, pw)),
                     "pod:{h}:{mm} %s" % pw if mi else "pod:{h} <part of day>")
        elif k == "midnight":
            if h or mi:
                continue
            f = (rng.choice(["midnight", "mitternacht"]), "midnight")
        if f is None:
            continue
        if rng.random() < 0.12:
            f = (style_ampm(rng, f[0]), f[1])
        out.append({"c": "clock", "p": [h, mi], "s": f[0], "t": "clock:" + f[1]})
    return out
