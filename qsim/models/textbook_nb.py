"""Multinomial naive Bayes over all 1..3-grams of a token sequence, written from the
definition (reference model for C16). Shares nothing with ctparse.count_vectorizer /
nb_estimator."""
import math


def ngrams(doc, lo=1, hi=3):
    out = []
    n = len(doc)
    for k in range(lo, hi + 1):
        for i in range(0, n - k + 1):
            out.append(" ".join(doc[i:i + k]))
    return out


class TextbookNB:
    def __init__(self, X, y, alpha=1.0, lo=1, hi=3):
        """X: token sequences; y: +1 / -1"""
        self.lo, self.hi, self.alpha = lo, hi, alpha
        self.vocab = set()
        cnt = {1: {}, -1: {}}
        n_docs = {1: 0, -1: 0}
        for doc, lab in zip(X, y):
            n_docs[lab] += 1
            for g in ngrams(doc, lo, hi):
                self.vocab.add(g)
                cnt[lab][g] = cnt[lab].get(g, 0) + 1
        self.n = n_docs
        self.cnt = cnt
        self.total = {c: sum(cnt[c].values()) for c in (1, -1)}
        V = len(self.vocab)
        self.denom = {c: self.total[c] + alpha * V for c in (1, -1)}
        self.log_prior = {c: math.log(n_docs[c] / (n_docs[1] + n_docs[-1])) for c in (1, -1)}

    def log_lik(self, c, g):
        return math.log(self.cnt[c].get(g, 0) + self.alpha) - math.log(self.denom[c])

    def joint(self, doc):
        """log P(c) + sum over known n-grams of the document (unknown ones ignored)"""
        gs = [g for g in ngrams(doc, self.lo, self.hi) if g in self.vocab]
        return {c: math.fsum([self.log_prior[c]] + [self.log_lik(c, g) for g in gs])
                for c in (1, -1)}

    def predict_log_proba(self, doc):
        """(log P(neg | doc), log P(pos | doc)) by explicit normalisation"""
        j = self.joint(doc)
        m = max(j.values())
        z = m + math.log(math.fsum(math.exp(v - m) for v in j.values()))
        return (j[-1] - z, j[1] - z)

    def log_odds(self, doc):
        neg, pos = self.predict_log_proba(doc)
        return pos - neg


class StoredParamsNB:
    """The same definition evaluated from *stored* parameters of a fitted pipeline
    (vocabulary {ngram: index}, per-class log-likelihood lists, log priors): own n-gram
    extraction, own lookup, own normalisation."""

    def __init__(self, vocabulary, ll_neg, ll_pos, prior_neg, prior_pos, lo=1, hi=3):
        self.vocab, self.ll = vocabulary, {-1: ll_neg, 1: ll_pos}
        self.prior = {-1: prior_neg, 1: prior_pos}
        self.lo, self.hi = lo, hi

    def log_odds(self, doc):
        j = {}
        for c in (1, -1):
            terms = [self.prior[c]]
            for g in ngrams(doc, self.lo, self.hi):
                i = self.vocab.get(g)
                if i is not None:
                    terms.append(self.ll[c][i])
            j[c] = math.fsum(terms)
        m = max(j.values())
        z = m + math.log(math.fsum(math.exp(v - m) for v in j.values()))
        return (j[1] - z) - (j[-1] - z)
