"""Calendar reference model for the clock-sim oracles (C03-C06).

Built on datetime.date / timedelta / calendar.monthrange only (no dateutil).
Conventions exactly as the properties fix them (DESIGN.md appendix A).
All functions take the reference *instant* (a datetime) and return the expected
value key in the same shape as qsim.core.vkey.
"""
import calendar
from datetime import date, datetime, timedelta


def T(y=None, m=None, d=None, h=None, mi=None, dow=None, pod=None):
    return ["T", y, m, d, h, mi, dow, pod]


def _d(dt):
    return T(dt.year, dt.month, dt.day)


def valid(y, m, d):
    return 1 <= m <= 12 and 1 <= d <= calendar.monthrange(y, m)[1]


# ---- C03 -----------------------------------------------------------------
def rel_day(ts, offset):
    return _d(ts.date() + timedelta(days=offset))


def now(ts):
    return T(ts.year, ts.month, ts.day, ts.hour, ts.minute)


def eom(ts):
    return T(ts.year, ts.month, calendar.monthrange(ts.year, ts.month)[1])


def eoy(ts):
    return T(ts.year, 12, 31)


def weekday_after(ts, w):
    """bare / 'this' weekday: first such day strictly after today"""
    d = ts.date()
    return _d(d + timedelta(days=(w - d.weekday() - 1) % 7 + 1))


def weekday_next(ts, w):
    """'next X' / 'X next week': first X on or after today + 7 days"""
    d = ts.date() + timedelta(days=7)
    return _d(d + timedelta(days=(w - d.weekday()) % 7))


# ---- C04 -----------------------------------------------------------------
def dom_after(ts, n):
    """first date strictly after today whose day is n (months without day n are skipped)"""
    d = ts.date()
    for i in range(1, 63):
        c = d + timedelta(days=i)
        if c.day == n:
            return _d(c)
    raise ValueError("no day %d within two months" % n)


def doy_on_or_after(ts, day, month):
    """first date on or after today with that day and month (29 Feb -> next leap year)"""
    d = ts.date()
    for y in range(d.year, d.year + 9):
        if valid(y, month, day) and date(y, month, day) >= d:
            return T(y, month, day)
    raise ValueError("no such date")


def dowdom_candidates(ts, w, n):
    """weekday + day of month: the nearest date NOT BEFORE today with that weekday and that day
    of month - today itself when today matches ("never before the reference date and ... the
    nearest one that matches"), whatever the time of day."""
    d = ts.date()
    for i in range(0, 366 * 12):
        c = d + timedelta(days=i)
        if c.day == n and c.weekday() == w:
            return [_d(c)]
    return []


def pod_day(ts, pod, start_hour):
    """today if the part of day's start (hh:00) is strictly after the reference instant,
    else tomorrow; the part of day is preserved"""
    start = datetime(ts.year, ts.month, ts.day) + timedelta(hours=start_hour)
    d = ts.date() if start > ts else ts.date() + timedelta(days=1)
    return T(d.year, d.month, d.day, pod=pod)


# ---- C05 -----------------------------------------------------------------
def absolute(y, m, d, h=None, mi=None):
    return T(y, m, d, h, mi)


# ---- C06 -----------------------------------------------------------------
def clock(h, mi):
    return T(h=h, mi=mi)


def clock_anchored(ts, h, mi):
    """first instant with that hh:mm strictly after the reference minute (within 24 h)"""
    ref_min = ts.replace(second=0, microsecond=0)
    c = ref_min.replace(hour=h, minute=mi)
    if c <= ref_min:
        c += timedelta(days=1)
    return T(c.year, c.month, c.day, c.hour, c.minute)


# ---- latent-time anchoring of a resolution (reference for ctparse's post-processing) ------
def _is_tod(v):
    return (v is not None and v[0] == "T" and v[4] is not None
            and all(v[i] is None for i in (1, 2, 3, 6, 7)))


def latent(v, ts):
    """What latent_time=True turns a resolution into: a bare clock time becomes the first
    such time strictly after the reference minute; a range of two bare clock times is
    anchored on the day of its (anchored) start; everything else is unchanged."""
    if v is None:
        return v
    if v[0] == "T" and _is_tod(v):
        return clock_anchored(ts, v[4], v[5] or 0)
    if v[0] == "I" and _is_tod(v[1]) and _is_tod(v[2]):
        a = clock_anchored(ts, v[1][4], v[1][5] or 0)
        return ["I", a, T(a[1], a[2], a[3], v[2][4], v[2][5] or 0)]
    return v
