"""Pool entries = complete argument sets of one parse call; shared by the in-process
simulator and by the fresh-interpreter oracle workers."""
import random

from qsim import core
from qsim.clocks import parse_ts


def mk_scorer(lib, spec):
    if spec is None or spec == "default":
        return None
    if spec == "dummy":
        return lib["scorer"].DummyScorer()
    if spec == "shipped_explicit":
        return lib["ctparse"]._DEFAULT_SCORER
    if isinstance(spec, list) and spec[0] == "random":
        return lib["scorer"].RandomScorer(random.Random(spec[1]))
    raise core.HarnessError("unknown scorer spec %r" % (spec,))


def kwargs(lib, entry, scorer=None):
    kw = dict(ts=parse_ts(entry["ts"]), timeout=0,
              relative_match_len=entry.get("relative_match_len", 1.0),
              max_stack_depth=entry.get("max_stack_depth", 10),
              latent_time=entry.get("latent_time", True))
    sc = scorer if scorer is not None else mk_scorer(lib, entry.get("scorer"))
    if sc is not None:
        kw["scorer"] = sc
    return kw


def evaluate(lib, entry, kind):
    """The one call an oracle worker makes."""
    try:
        if kind == "gen":
            return {"stream": [core.cand_key(c)
                               for c in lib["ctparse"].ctparse_gen(entry["text"],
                                                                   **kwargs(lib, entry))]}
        r = lib["ctparse"].ctparse(entry["text"], **kwargs(lib, entry))
        return {"call": core.cand_key(r) if hasattr(r, "resolution") else ["?", repr(r)]}
    except Exception as e:
        return {"exc": "%s: %s" % (type(e).__name__, e)}
