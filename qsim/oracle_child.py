"""Oracle worker: a fresh interpreter (own PYTHONHASHSEED) that imports the library,
makes exactly one call and prints what it observed."""
import json
import os
import sys

sys.dont_write_bytecode = True
sys.path.insert(0, os.path.dirname(os.path.dirname(os.path.abspath(__file__))))
from qsim import core, entries  # noqa: E402


def _batch(lib, items):
    """Each item evaluated in its own fork of this still pristine interpreter: no item can
    see state left behind by another (cheap stand-in for one interpreter per entry)."""
    out = []
    for it in items:
        r, w = os.pipe()
        pid = os.fork()
        if pid == 0:
            try:
                os.close(r)
                res = entries.evaluate(lib, it["entry"], it["kind"])
                with os.fdopen(w, "w") as fd:
                    fd.write(json.dumps(res))
            finally:
                os._exit(0)
        os.close(w)
        with os.fdopen(r) as fd:
            data = fd.read()
        os.waitpid(pid, 0)
        out.append(json.loads(data) if data else {"exc": "oracle fork died"})
    return out


def main():
    req = json.load(sys.stdin)
    lib = core.use_repo()
    if "batch" in req:
        sys.stdout.write(json.dumps(_batch(lib, req["batch"])))
        return
    out = entries.evaluate(lib, req["entry"], req["kind"])
    out["hashseed"] = os.environ.get("PYTHONHASHSEED")
    sys.stdout.write(json.dumps(out))


if __name__ == "__main__":
    main()
