"""Oracle worker: a fresh interpreter (own PYTHONHASHSEED) that imports the library,
makes exactly one call and prints what it observed."""
import json
import os
import sys

sys.dont_write_bytecode = True
sys.path.insert(0, os.path.dirname(os.path.dirname(os.path.abspath(__file__))))
from qsim import core, entries  # noqa: E402


def main():
    req = json.load(sys.stdin)
    lib = core.use_repo()
    out = entries.evaluate(lib, req["entry"], req["kind"])
    out["hashseed"] = os.environ.get("PYTHONHASHSEED")
    sys.stdout.write(json.dumps(out))


if __name__ == "__main__":
    main()
