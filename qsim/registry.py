"""property id -> engine, claimed level"""
CHECKS = {
    "C13": ("deadline", "fault_enumeration"),
    "C14": ("search", "exploration"),
    "C15": ("search", "exploration"),
    "C12": ("history", "exploration"),
    "C03": ("clocksim", "exploration"),
    "C04": ("clocksim", "exploration"),
    "C05": ("clocksim", "exploration"),
    "C06": ("clocksim", "exploration"),
    "C01": ("envsim", "exploration"),
    "C16": ("storesim", "exploration"),
}
