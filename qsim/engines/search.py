"""search-sim (C15, C14): the production search under a simulated scheduler.

The only scheduling authority of the best-first search is the ``Scorer`` (the stack
is re-sorted by score after every expansion), so a seeded ``SimScorer`` handed in
through ``scorer=`` decides the order of every rule application.  ``max_stack_depth``
is the loss fault, replacing ``PartialParse._filter_rules`` by "all rules" the buggify.
The consumer pulls one candidate at a time and re-validates everything seen so far.
"""
import math
import random

from qsim import core, workload
from qsim.clocks import parse_ts, fmt_ts
from qsim.core import vkey, tkey, cand_key
from qsim.models import derivation
from qsim.models import calendar as cal

PROPERTIES = ["C14", "C15"]
SIM_TIME_UNIT = "scheduler decisions (scores handed out)"
HANG_S = 300
CHUNK = 1
COMPONENTS = {
    "real": ["ctparse.ctparse (_ctparse search loop, _match_regex, _regex_stack, _match_rule)",
             "ctparse.partial_parse (PartialParse, _filter_rules, _seq_match)",
             "ctparse.rule registry + every production in ctparse.time.rules",
             "ctparse.nb_scorer + shipped model (modes shipped / neg_shipped)", "regex", "dateutil"],
    "stub": ["Scorer -> SimScorer (seeded scheduler of the search)",
             "PartialParse._filter_rules -> all rules (buggify skip_prefilter, some runs)",
             "registry wrappers -> argument-snapshotting wrappers around the real productions"],
}
RULE = {
    "C15": "one evaluation = one complete candidate stream of a short normalised text under one "
           "simulated scheduler / depth limit, compared with the reference derivation closure; "
           "distinct = distinct sequence of rule applications (hash of the order in which "
           "productions fired) of runs with at least one rule application and one candidate",
    "C14": "one evaluation = ctparse() vs. list(ctparse_gen()) under an identical score script, "
           "plus the emission-history checks; distinct = distinct (text, emission order) with at "
           "least two candidates (so that 'best' and 'again only if better' are non-trivial)",
}
ASSUMPTIONS = {
    "C15": ["the registered patterns and rules are the specification; a wrong regex or production "
            "is out of scope ('what the rules license')",
            "texts are already normalised and label-free so that pre-processing is the identity",
            "texts whose derivation closure exceeds the state cap are skipped and counted",
            "latent-time anchoring is post-processing outside the rule base: runs with it on are "
            "compared modulo a reference model of that step (qsim/models/calendar.py: latent), "
            "values only"],
    "C14": ["values are compared by oracle-side keys (all fields / both ends / amount+unit)",
            "both entry points get scorers built from the same score script"],
}
EXPECTED_FAULTS = {"C15": ["reorder", "lossy_stack", "skip_prefilter"], "C14": ["reorder"]}
DETERMINISM_SAMPLE = {"quick": 3, "thorough": 8}
EXHAUSTIVE = {}
MIN_CASES = {'quick': 350, 'thorough': 3500}
STATE_CAP = {"quick": 1500, "thorough": 12000}
BUDGET = {"quick": 2500, "thorough": 40000}  # scheduler decisions per run


class BudgetExceeded(Exception):
    """Raised by the scheduler after a fixed number of decisions (deterministic step cap)."""


class SimScorer:
    """The scheduler. Every score handed out is recorded."""

    def __init__(self, spec, shipped, budget=0):
        self.budget = budget
        self.mode = spec["mode"]
        self.rng = random.Random(spec.get("seed", 0))
        self.shipped = shipped
        self.n = 0
        self.handed = []
        self.script = spec.get("scores")

    def _next(self, fn, *a):
        m = self.mode
        self.n += 1
        if self.budget and self.n > self.budget:
            raise BudgetExceeded()
        if m == "constant":
            v = 0.0
        elif m == "shipped":
            v = fn(*a)
        elif m == "neg_shipped":
            v = -fn(*a)
        elif m == "counter_up":
            v = float(self.n)
        elif m == "counter_down":
            v = float(-self.n)
        elif m == "uniform":
            v = self.rng.random()
        elif m == "coarse":
            v = float(self.rng.choice([0, 1, 2]))
        elif m == "coarse_neg":
            # the best score is exactly 0.0 (or -0.0), everything else below it
            v = self.rng.choice([0.0, -0.0, -1.0, -2.5, 0.0])
        elif m == "tiny":
            # finite scores on a very small absolute scale
            v = self.rng.random() * 1e-12
        elif m == "huge":
            v = (self.rng.random() - 0.5) * 1e300
        elif m == "close":
            # scores that differ in their last bits only
            v = 1.0 + self.rng.randrange(2000) * 2.220446049250313e-16
        elif m == "bigint":
            # exact integers beyond 2**53 that differ in their low-order part only (a packed
            # lexicographic ranking): distinct as ints, equal once converted to float
            v = 6 * 10 ** 18 - self.rng.randrange(40)
        elif m == "poison":
            # a caller's scorer that sometimes answers NaN / +-inf: whatever the search does
            # with such candidates, a non-finite score must not be streamed
            v = self.rng.choice([float("nan"), float("inf"), float("-inf")]) \
                if self.rng.random() < 0.2 else self.rng.random()
        elif m == "script":
            v = self.script[self.n - 1] if self.n - 1 < len(self.script) else 0.0
        else:
            raise core.HarnessError("unknown scheduler mode %r" % m)
        self.handed.append(v)
        return v

    def score(self, txt, ts, pp):
        return self._next(self.shipped.score, txt, ts, pp)

    def score_final(self, txt, ts, pp, prod):
        return self._next(self.shipped.score_final, txt, ts, pp, prod)


class FalsySimScorer(SimScorer):
    """A scorer object that is falsy (a container-like scorer with an empty table): legal,
    and distinguishes ``scorer is None`` from ``not scorer``."""

    def __len__(self):
        return 0


def _mk_sim(spec, shipped, budget):
    return (FalsySimScorer if spec.get("falsy") else SimScorer)(spec, shipped, budget)


class Snapshots:
    """Registry entries replaced by wrappers that snapshot argument values around the
    real production (no source change; restored on exit)."""

    def __init__(self, lib, sink, trace, skip_prefilter):
        self.lib, self.sink, self.trace, self.skip = lib, sink, trace, skip_prefilter

    def __enter__(self):
        rules = self.lib["rule"].rules
        self.saved = dict(rules)
        sink, trace = self.sink, self.trace

        seen = self.seen = {}

        def mk(name, fn):
            def snap(ts, *args):
                before = [(vkey(a), a.mstart, a.mend) for a in args]
                # a value, once produced, never changes: compare with what this very object
                # looked like when a rule first saw or produced it
                for a, b in zip(args, before):
                    old = seen.get(id(a))
                    if old is not None and old[0] is a and old[1] != b[0]:
                        sink.append(("stale", name, old[1], b[0]))
                        seen[id(a)] = (a, b[0])
                res = fn(ts, *args)
                after = [(vkey(a), a.mstart, a.mend) for a in args]
                for a, b in zip(args, after):
                    if id(a) not in seen:
                        seen[id(a)] = (a, b[0])
                if res is not None and id(res) not in seen:
                    seen[id(res)] = (res, vkey(res))
                trace.append(name if res is not None else "~" + name)
                for b, a_ in zip(before, after):
                    if b[0] != a_[0]:
                        sink.append(("value", name, b[0], a_[0]))
                    elif b[1:] != a_[1:]:
                        sink.append(("span", name, b[1:], a_[1:]))
                return res
            return snap

        for name, (fn, pats) in self.saved.items():
            rules[name] = (mk(name, fn), pats)
        PP = self.lib["partial_parse"].PartialParse
        self.saved_filter = PP._filter_rules
        if self.skip:
            PP._filter_rules = lambda self_, rules_, *a, **k: dict(rules_)
        return self

    def __exit__(self, *a):
        rules = self.lib["rule"].rules
        for name, v in self.saved.items():
            rules[name] = v
        self.lib["partial_parse"].PartialParse._filter_rules = self.saved_filter
        return False


_CLOSURES = {}


def _closure(lib, text, ts, rml, cap):
    k = (text, ts, rml)
    if k not in _CLOSURES:
        if len(_CLOSURES) > 8:
            _CLOSURES.clear()
        try:
            _CLOSURES[k] = derivation.Closure(lib, text, ts, rml, cap=cap)
        except derivation.TooBig as e:
            _CLOSURES[k] = str(e)
    return _CLOSURES[k]


def strip_labels(text):
    """The text the search really works on: '#label' tokens removed (the blanks around them
    stay), then stripped. Hand-written scan, independent of the library's regex."""
    out = []
    i, n = 0, len(text)
    ok = set("abcdefghijklmnopqrstuvwxyzABCDEFGHIJKLMNOPQRSTUVWXYZ0123456789_-")
    while i < n:
        if text[i] == "#" and i + 1 < n and text[i + 1] in ok:
            j = i + 1
            while j < n and text[j] in ok:
                j += 1
            i = j
            continue
        out.append(text[i])
        i += 1
    return "".join(out).strip()


def _normalised(lib, text):
    """pre-processing must be the identity (separators are C11's business); labels are fine"""
    return lib["ctparse"]._preprocess_string(text) == text and text != "" \
        and strip_labels(text) != ""


def _aslist(v):
    if isinstance(v, tuple):
        return [_aslist(x) for x in v]
    return v


def _call_kw(case, run, sim):
    """keyword arguments of one run; with "defaults" every option the library has a default for
    is left out (in the stream AND in the single-result call: identical arguments)"""
    if run.get("defaults"):
        return dict(timeout=0, scorer=sim)
    return dict(timeout=0, max_stack_depth=run["depth"], scorer=sim,
                relative_match_len=case.get("relative_match_len", 1.0),
                latent_time=run.get("latent", False))


def _stream(lib, case, run, kw_extra=None):
    """One simulated run: pull the stream step by step under the scheduler."""
    ts = parse_ts(case["ts"])
    sim = _mk_sim(run["sched"], lib["ctparse"]._DEFAULT_SCORER, case.get("budget", 0))
    sink, trace = [], []
    cands, snaps, changed = [], [], []
    compared = [0]
    exc = None
    import contextlib
    # "light" runs (very deep searches) go without the per-rule-application snapshots
    with (contextlib.nullcontext() if run.get("light")
          else Snapshots(lib, sink, trace, run.get("skip_prefilter", False))):
        try:
            gen = lib["ctparse"].ctparse_gen(case["text"], ts, **_call_kw(case, run, sim))
            for c in gen:
                # pure: nothing yielded earlier may have changed (every step for short
                # streams, every 64th step for long ones, and once more at the end)
                if len(cands) <= 48 or len(cands) % 64 == 0:
                    compared[0] += len(cands)
                    for i, (old, obj) in enumerate(zip(snaps, cands)):
                        if cand_key(obj) != old and i not in changed:
                            changed.append(i)
                cands.append(c)
                snaps.append(cand_key(c))
        except BudgetExceeded:
            exc = "budget"
        except Exception as e:
            exc = "%s: %s" % (type(e).__name__, e)
            import traceback as _tb
            frames = [f.filename.rsplit("/", 1)[-1] for f in _tb.extract_tb(e.__traceback__)]
            if any(f in ("nb_scorer.py", "nb_estimator.py", "scorer.py", "pipeline.py",
                         "count_vectorizer.py") for f in frames):
                exc = "in-scorer " + exc
    compared[0] += len(cands)
    for i, (old, obj) in enumerate(zip(snaps, cands)):
        if cand_key(obj) != old and i not in changed:
            changed.append(i)
    return {"compared": compared[0], "cands": cands, "snaps": snaps, "changed": changed, "sink": sink, "trace": trace,
            "exc": exc, "sim": sim}


def _single(lib, case, run):
    ts = parse_ts(case["ts"])
    sim = _mk_sim(run["sched"], lib["ctparse"]._DEFAULT_SCORER, case.get("budget", 0))
    try:
        r = lib["ctparse"].ctparse(case["text"], ts, **_call_kw(case, run, sim))
    except BudgetExceeded:
        return None, "budget"
    except Exception as e:
        return None, "%s: %s" % (type(e).__name__, e)
    return r, None


def _sched_tag(s):
    return s["mode"] + (":%d" % s["seed"] if "seed" in s else "") + ("/falsy" if s.get("falsy") else "")


def execute(case):
    lib = core.use_repo()
    prop = case["prop"]
    text = case["text"]
    V, keys, obs = [], [], []
    faults = {"reorder": 0, "lossy_stack": 0, "skip_prefilter": 0}
    probes = {"closure_too_big": 0, "not_normalised": 0, "library_raised": 0,
              "arg_span_widened": 0, "post_yield_snapshots_compared": 0,
              "re_emitted_with_higher_score": 0, "ties_at_max": 0, "empty_stream": 0,
              "step_budget_exceeded": 0, "model_rule_error": 0, "text_with_labels": 0,
              "text_with_separators": 0, "deep_search_runs": 0,
              "deep_search_over_64k_scorings": 0}
    n_eval = 0
    sim_time = 0

    def viol(oracle, cls, detail):
        V.append({"oracle": oracle, "class": cls, "detail": detail})

    if prop == "C15" and not _normalised(lib, text):
        probes["not_normalised"] += 1
        return {"viol": V, "digest": core.digest(["skip", text]), "n_eval": 0, "keys": [],
                "probes": probes, "faults": faults}
    ts = parse_ts(case["ts"])
    clo = None
    if prop == "C15":
        inner = strip_labels(text)
        if inner != text:
            probes["text_with_labels"] += 1
        clo = _closure(lib, inner, ts, case.get("relative_match_len", 1.0), case["cap"])
        if isinstance(clo, str):
            probes["closure_too_big"] += 1
            return {"viol": V, "digest": core.digest(["big", text]), "n_eval": 0, "keys": [],
                    "probes": probes, "faults": faults}
        probes["model_rule_error"] += len(clo.errors)
    base_sets = {}

    for run in case["runs"]:
        tag = "%s/d%d%s%s%s" % (_sched_tag(run["sched"]), run["depth"],
                              "/defaults" if run.get("defaults") else "",
                              "/latent" if run.get("latent") else "",
                              "/noprefilter" if run.get("skip_prefilter") else "")
        r = _stream(lib, case, run)
        n_eval += 1
        sim_time += r["sim"].n
        faults["reorder"] += 1 if run["sched"]["mode"] not in ("shipped",) else 0
        if run["depth"]:
            faults["lossy_stack"] += 1
        if run.get("skip_prefilter"):
            faults["skip_prefilter"] += 1
        if r["exc"] == "budget":
            probes["step_budget_exceeded"] += 1
            obs.append([tag, "budget"])
            if run["depth"] == 0:
                break  # the un-truncated search of this text is beyond the step cap
            continue
        if r["exc"] and r["exc"].startswith("in-scorer") and prop == "C14" \
                and run["sched"]["mode"] in ("shipped", "neg_shipped"):
            viol("C14.finite", "score-raises:" + r["exc"].split()[1].rstrip(":"),
                 "text=%r sched=%s: computing a score raised %s - no finite score exists for "
                 "this candidate" % (text, tag, r["exc"]))
            continue
        if r["exc"]:
            # totality is decided by C01 (env-sim); here it only ends the run
            probes["library_raised"] += 1
            obs.append([tag, "exc", r["exc"]])
            continue
        snaps = r["snaps"]
        obs.append([tag, snaps, len(r["sim"].handed)])
        fired = [t for t in r["trace"] if not t.startswith("~")]
        probes["post_yield_snapshots_compared"] += r["compared"]
        if not snaps:
            probes["empty_stream"] += 1

        if prop == "C15":
            if fired and snaps:
                keys.append(core.short([text, fired]))
            # ---- pure: arguments
            for kind, name, b, a_ in r["sink"]:
                if kind == "stale":
                    viol("C15.pure-arguments", "changed-between-rule-applications",
                         "text=%r sched=%s: a value was %s when a rule produced / first saw it "
                         "and is %s when %s is applied to it later (edited in place outside a "
                         "rule application)" % (text, tag, b, a_, name))
                elif kind == "value":
                    viol("C15.pure-arguments", "rule:" + name,
                         "text=%r sched=%s: %s changed the value of an argument it was applied "
                         "to: %s -> %s" % (text, tag, name, b, a_))
                else:
                    probes["arg_span_widened"] += 1
                    viol("C15.pure-arguments", "span:" + name,
                         "text=%r sched=%s: %s changed the span of an argument it was applied "
                         "to: %s -> %s (the object is shared with other partial parses and "
                         "yielded candidates)" % (text, tag, name, b, a_))
            # ---- pure: yielded candidates
            for i in r["changed"]:
                viol("C15.pure-yielded", "candidate-changed-after-yield",
                     "text=%r sched=%s: candidate #%d was %s when yielded and is %s later"
                     % (text, tag, i, snaps[i], cand_key(r["cands"][i])))
            # ---- sound
            lat = bool(run.get("latent"))
            if lat:
                # latent anchoring is post-processing outside the rule base: compare modulo
                # the reference model of that step (values only; anchored values are fresh
                # objects without span)
                L = lambda v: tkey(cal.latent(_aslist(v), ts))
                derivable_values = {L(v) for v in clo.derivable_values}
                terminal_values = {L(v) for v in clo.terminal_values}
            else:
                derivable_values, terminal_values = clo.derivable_values, clo.terminal_values
            for i, (c, s) in enumerate(zip(r["cands"], snaps)):
                if c is None or i in r["changed"]:
                    continue
                vk = tkey(s[0])
                ek = (vk, s[1], s[2])
                if lat:
                    if vk not in derivable_values:
                        viol("C15.sound", "underivable-value",
                             "text=%r sched=%s: streamed %s is not the (latent-anchored) value "
                             "of any derivation (closure: %d states)"
                             % (text, tag, s[0], clo.n_states))
                        continue
                    try:
                        rp = clo.replay(c.production)
                    except derivation.TooBig:
                        continue
                    if rp is not None and vk not in {L(e[0]) for e in rp}:
                        viol("C15.sound-trace", "trace-does-not-derive",
                             "text=%r sched=%s: reported production %s does not derive %s "
                             "(modulo latent anchoring)" % (text, tag, s[3], s[0]))
                    continue
                if vk not in clo.derivable_values:
                    viol("C15.sound", "underivable-value",
                         "text=%r sched=%s: streamed %s is not derivable by any rule sequence "
                         "(closure: %d states)" % (text, tag, s[0], clo.n_states))
                    continue
                if ek not in clo.derivable:
                    viol("C15.sound", "underivable-span",
                         "text=%r sched=%s: value %s is derivable but not with span [%s,%s)"
                         % (text, tag, s[0], s[1], s[2]))
                    continue
                try:
                    rp = clo.replay(c.production)
                except derivation.TooBig:
                    probes["closure_too_big"] += 1
                    continue
                if rp is None:
                    viol("C15.sound-trace", "malformed-trace",
                         "text=%r sched=%s: production %r is not ids followed by rule names"
                         % (text, tag, c.production))
                elif ek not in rp:
                    if vk in {e[0] for e in rp}:
                        viol("C15.sound-trace", "trace-span",
                             "text=%r sched=%s: production %s derives %s but not with span "
                             "[%s,%s)" % (text, tag, s[3], s[0], s[1], s[2]))
                    else:
                        viol("C15.sound-trace", "trace-does-not-derive",
                             "text=%r sched=%s: reported production %s does not derive %s"
                             % (text, tag, s[3], s[0]))
            # ---- complete (no depth limit, no timeout)
            if run["depth"] == 0:
                streamed = {tkey(s[0]) for s in snaps if s is not None}
                missing = terminal_values - streamed
                for mv in sorted(missing, key=repr)[:3]:
                    viol("C15.complete", "terminal-missing:" + str(mv[0]),
                         "text=%r sched=%s: fully reduced derivation result %s was never "
                         "streamed (%d streamed, %d terminal)"
                         % (text, tag, list(mv), len(streamed), len(clo.terminal_values)))
            # ---- prefilter buggify must not change the candidate set
            sk = (_sched_tag(run["sched"]), run["depth"], bool(run.get("latent")))
            cset = sorted(repr((s[0], s[3])) for s in snaps if s is not None)
            if sk in base_sets and base_sets[sk][0] != bool(run.get("skip_prefilter")):
                if base_sets[sk][1] != cset:
                    viol("C15.prefilter-neutral", "candidate-set-differs",
                         "text=%r sched=%s: candidates with and without the rule pre-filter "
                         "differ (%d vs %d)" % (text, tag, len(base_sets[sk][1]), len(cset)))
            else:
                base_sets[sk] = (bool(run.get("skip_prefilter")), cset)

        if prop == "C14":
            if len(snaps) >= 2:
                keys.append(core.short([text, [s[0] for s in snaps]]))
            if lib["ctparse"]._preprocess_string(text) != text:
                probes["text_with_separators"] += 1
            if "#" in text:
                probes["text_with_labels"] += 1
            # ---- finite
            for c, s in zip(r["cands"], snaps):
                if c is None:
                    continue
                if not isinstance(c.score, (int, float)) or isinstance(c.score, bool) \
                        or not math.isfinite(c.score):
                    viol("C14.finite", "score-not-finite",
                         "text=%r sched=%s: candidate %s has score %r" % (text, tag, s[0], c.score))
            if run["sched"]["mode"] == "poison":
                continue   # ordering / best-of are not defined over NaN
            # ---- dedup over the emission history (before latent anchoring)
            if not run.get("latent"):
                best = {}
                for c, s in zip(r["cands"], snaps):
                    if c is None:
                        continue
                    vk = tkey(s[0])
                    if vk in best:
                        if not (c.score > best[vk]):
                            viol("C14.dedup", "re-emitted-not-better:" + str(vk[0]),
                                 "text=%r sched=%s: value %s streamed again with score %r, "
                                 "earlier %r" % (text, tag, s[0], c.score, best[vk]))
                        else:
                            probes["re_emitted_with_higher_score"] += 1
                        best[vk] = max(best[vk], c.score)
                    else:
                        best[vk] = c.score
            if run.get("light"):
                probes["deep_search_runs"] += 1
                if r["sim"].n > 65536:
                    probes["deep_search_over_64k_scorings"] += 1
                continue   # (a very deep search is run once, as a stream)
            # ---- best: single-result call under the identical score script
            res, exc = _single(lib, case, run)
            n_eval += 1
            if exc:
                probes["library_raised"] += 1
                continue
            real = [(c, s) for c, s in zip(r["cands"], snaps) if c is not None]
            if res is None or not hasattr(res, "resolution"):
                viol("C14.best", "no-result-object",
                     "text=%r sched=%s: ctparse() returned %r" % (text, tag, res))
                continue
            rk = cand_key(res)
            obs.append([tag, "single", rk])
            if not real:
                if res.resolution is not None:
                    viol("C14.best", "resolution-from-empty-stream",
                         "text=%r sched=%s: stream is empty but ctparse() returned %s"
                         % (text, tag, rk))
                continue
            if res.resolution is None:
                viol("C14.best", "empty-resolution-nonempty-stream",
                     "text=%r sched=%s: stream has %d candidates but ctparse() returned an "
                     "empty resolution" % (text, tag, len(real)))
                continue
            mx = max(c.score for c, _ in real)
            tops = [s for c, s in real if c.score == mx]
            if len(tops) > 1:
                probes["ties_at_max"] += 1
            if rk not in [s for _, s in real]:
                viol("C14.best", "not-a-stream-member",
                     "text=%r sched=%s: ctparse() returned %s which the stream never yielded"
                     % (text, tag, rk))
            elif rk not in tops:
                viol("C14.best", "not-maximal",
                     "text=%r sched=%s: ctparse() returned score %s, stream maximum is %r"
                     % (text, tag, rk[4], mx))

    sample = {"text": text, "ts": case["ts"],
              "runs": [dict(r_, sched=_sched_tag(r_["sched"])) for r_ in case["runs"][:4]]}
    if clo is not None and not isinstance(clo, str):
        sample["reference_closure"] = {"initial_sequences": len(clo.initial),
                                       "states": clo.n_states, "transitions": clo.n_transitions,
                                       "derivable": len(clo.derivable_values),
                                       "terminal": len(clo.terminal_values)}
    return {"viol": V, "digest": core.digest(obs), "n_eval": n_eval, "keys": keys,
            "faults": faults, "probes": probes, "sim_time": sim_time, "sample": sample}


def _schedulers(rng, n_random):
    s = [{"mode": "constant"}, {"mode": "shipped"}, {"mode": "neg_shipped"},
         {"mode": "counter_up"}, {"mode": "counter_down"}]
    for _ in range(n_random):
        s.append({"mode": rng.choice(["uniform", "uniform", "coarse", "coarse_neg", "tiny",
                                      "close", "huge", "bigint"]),
                  "seed": rng.randrange(1 << 30)})
        if rng.random() < 0.12:
            s[-1]["falsy"] = True

    return s


def _long_interval(rng):
    """a fully spelled-out interval: ~25 tokens, ~50 rule applications (deep traces)"""
    from qsim.models import forms

    def side():
        return "%s the %s of %s %d at %d:%02d in the %s %s" % (
            rng.choice(["monday", "tuesday", "friday", "sunday"]), forms._ord_en(rng.randint(1, 28)),
            rng.choice(["march", "april", "june", "october"]), rng.choice([2020, 2021, 2023]),
            rng.randint(1, 11), rng.choice([0, 15, 30, 45]), rng.choice(["early", "late"]),
            rng.choice(["morning", "afternoon", "evening"]))
    return "%s %s %s %s" % (rng.choice(["between", "from"]), side(),
                            rng.choice(["and", "to", "until"]), side())


def _texts(rng, n, prop="C15"):
    out = []
    if prop == "C14":
        out += [_long_interval(rng) for _ in range(max(2, n // 60))]
    maxtok = 6 if prop == "C15" else 9
    fixed = [t for t in workload.FIXED_TEXTS
             if t and "#" not in t and len(t.split()) <= maxtok]
    rng.shuffle(fixed)
    out += fixed[: max(6, n // 5)]
    while len(out) < n:
        r = rng.random()
        if r < 0.42:
            t = workload.structured_text(rng)
        elif r < 0.66:
            t = workload.gen_text(rng, 4 if prop == "C15" else 6,
                                  groups=rng.sample(range(12), rng.randint(1, 4)))
        elif r < 0.70:
            # a match on which the production *declines* (four digits that are no military
            # time, "half" of a unit other than hour/day) next to one of the same pattern on
            # which it succeeds, in both orders
            dec, acc = rng.choice([
                (["1013", "0932", "1147", "2017", "1201"], ["1230", "1430", "0800", "2015"]),
                (["half week", "half a month", "1/2 night", "1/2 week"],
                 ["half day", "half hour", "half an hour", "1/2 h"])])
            a, b = rng.choice(dec), rng.choice(acc)
            t = "%s %s" % ((a, b) if rng.random() < 0.6 else (b, a))
            if rng.random() < 0.3:
                t = rng.choice(["tomorrow", "at", "friday"]) + " " + t
        elif r < 0.73:
            # a date interval next to a duration that agrees with it (the consistency rules
            # hand back one of their arguments)
            d1 = rng.randint(1, 20)
            nn = rng.randint(1, 5)
            mon = rng.choice(["11.2020", "3.2021", "nov", "märz"])
            iv = ("%d.%s - %d.%s" % (d1, mon, d1 + nn, mon)) if mon[0].isdigit() else \
                ("%d - %d %s" % (d1, d1 + nn, mon))
            du = "%d %s" % (nn, rng.choice(["nacht", "nights", "days", "tage"]))
            t = rng.choice(["%s %s" % (iv, du), "%s für %s" % (iv, du), "%s %s" % (du, iv),
                            "%s %s für 1 tag" % (iv, du)])
        elif r < 0.76:
            # a part of day in front of a clock interval (rulePODInterval shifts the hours of
            # an interval that other partial parses still hold)
            pod = rng.choice(["in the evening", "tonight", "abends", "nachmittags", "afternoon",
                              "late evening", "at night", "morning"])
            a, b = rng.randint(1, 11), rng.randint(1, 11)
            iv = rng.choice(["between %d and %d", "%d-%d", "%d bis %d", "from %d to %d",
                             "nach %d", "before %d"])
            iv = iv % ((a, b) if iv.count("%d") == 2 else (a,))
            t = "%s %s" % (pod, iv)
        elif r < 0.80:
            # the same joiner / absorber word leading the text and recurring between two
            # values (a bullet "- 10.5. - 12.5.", "to 5 to 6"): the first occurrence of a
            # pattern id is not the one a rule needs
            j = rng.choice(["-", "to", "und", "and", "bis", "at", "on", "am", "from"])
            v = rng.choice([workload.CLOCKS, workload.DATES, workload.DOMS, workload.DOWS])
            t = "%s %s %s %s" % (j, rng.choice(v), j, rng.choice(v))
            if rng.random() < 0.4:
                # ... or dangling at the END (the last occurrence is the unusable one)
                t = "%s %s %s %s" % (rng.choice(v), j, rng.choice(v), j)
            elif rng.random() < 0.3:
                t = "%s %s %s %s %s" % (j, rng.choice(workload.DOWS), rng.choice(v), j,
                                        rng.choice(v))
        elif r < 0.845:
            # (part of day) + dated clock time + "for <duration>": an interval that no joiner,
            # "before" or "after" word announces, then consumed by the interval rules
            pod = rng.choice(["abends", "evening", "nachmittags", "afternoon", "tonight", "night",
                              "nachts", "morning", "last"])
            day = rng.choice(["5.5.2020", "tomorrow", "friday", "heute", "12.12.", "mon", "5.5."])
            ck = rng.choice(["8 uhr", "8", "8:30", "9am", "20:00", "3", "7 uhr", "11:15"])
            du = rng.choice(["für 2 stunden", "for 3 hours", "for 90 minutes", "für 30 minuten",
                             "for 2 hours", "für 1 stunde", "for 2 days", "for one night",
                             "für 1 tag"])
            t = rng.choice(["%s %s %s %s" % (pod, day, ck, du), "%s %s %s %s" % (pod, day, ck, du),
                            "%s %s %s %s" % (day, pod, ck, du), "%s %s %s %s" % (day, ck, pod, du),
                            "%s %s %s" % (pod, ck, du), "%s %s %s" % (day, ck, du),
                            "%s %s %s %s" % (pod, ck, day, du)])
        elif r < 0.853:
            # two durations of the same length in different units (equal "size", different values)
            nn = rng.randint(1, 4)
            a, b = rng.choice([("%d nights" % nn, "%d days" % nn), ("%d week" % 1, "7 days"),
                               ("2 hours", "120 minutes"), ("1 day", "24 hours"),
                               ("half an hour", "30 m"), ("a week", "7 tage"),
                               ("%d nächte" % nn, "%d tage" % nn), ("1 hour", "60 minutes")])
            t = "%s %s" % ((a, b) if rng.random() < 0.5 else (b, a))
        elif r < 0.872:
            # a group of ambiguous tokens (dozens of candidate sequences), a word nothing matches,
            # then an expression with longer coverage - and the other way round
            g = " ".join(rng.choice(["1", "2", "3", "5", "8"]) for _ in range(rng.choice([3, 3, 4])))
            e = rng.choice(["tomorrow", "12.12.2020", "friday 8pm", "übermorgen", "next monday"])
            t = "%s %s %s" % ((g, rng.choice(["x", "foo", "und"]), e) if rng.random() < 0.7
                              else (e, "x", g))
        elif r < 0.88:
            # two different expressions of the same kind side by side (one pattern matching
            # twice in one sequence; a production may decline the first and accept the second)
            g = rng.choice([workload.CLOCKS, workload.DURS, workload.DATES, workload.DOMS,
                            workload.PODS])
            t = "%s %s" % (rng.choice(g), rng.choice(g))
        elif r < 0.91:
            # the same sub-expression twice: equal values at different offsets
            a = rng.choice(workload.DURS + workload.CLOCKS + workload.DOMS + workload.PODS
                           + workload.DOWS)
            t = "%s %s %s" % (a, rng.choice(["", "am", "and", "-", "at", "x"]), a)
        else:
            a, b = rng.choice(workload.CLOCKS), rng.choice(workload.CLOCKS)
            t = "%s%s%s" % (a, rng.choice(["-", " - ", " to ", " bis "]), b)
            if rng.random() < 0.5:
                t = rng.choice(workload.DATES + workload.DOWS + ["at", "from"]) + " " + t
        t = " ".join(t.lower().split()) if rng.random() < 0.9 else " ".join(t.split())
        if rng.random() < (0.06 if prop == "C15" else 0.08):
            # letters that a case-insensitive Unicode match folds together / decomposed umlauts
            t = workload.confuse(rng, t)
        if len(t) > (44 if prop == "C15" else 64):
            continue
        toks = t.split(" ")
        if rng.random() < 0.18 and toks:
            # a label somewhere (start, between two expression tokens, end)
            labs = ["#work", "#fun", "#a-b", "#x1"]
            if prop == "C14":
                # labels touching characters that pre-processing rewrites
                labs += ["#work\u2013late", "#follow--up", "#(team)", "#a,b", "#x\u2014y"]
            at = rng.randint(0, len(toks))
            # one label, or a run of two or three (cutting them out leaves a run of blanks)
            for _ in range(rng.choice([1, 1, 2, 2, 3])):
                toks.insert(at, rng.choice(labs))
            t = " ".join(toks)
        if prop == "C14" and rng.random() < 0.07:
            # words outside the expression and a dash at the very start / end of the text (the
            # subject is what is left of the text: its blanks are part of the result)
            t = rng.choice(["- lunch with anna %s", "lunch with anna %s \u2013", "\u2014 standup %s",
                            "- %s", "%s -", "call bob %s --"]) % t
            toks = t.split(" ")
        if prop == "C14" and rng.random() < 0.2 and len(toks) > 1:
            # separators that pre-processing rewrites
            seps = [", ", "; ", " (", ") ", " \u2013 ", "\u2014", ",", " ,", "\t", "  "]
            t = toks[0] + "".join(rng.choice(seps if rng.random() < 0.5 else [" "]) + x
                                  for x in toks[1:])
        if t:
            out.append(t)
    return out


def plan(prop, tier, seed):
    rng = core.stream(core.derive_seed(seed, prop, tier), "workload")
    quick = tier == "quick"
    n_texts = (400 if quick else 4000) if prop == "C15" else (500 if quick else 5000)
    cases = []
    for text in _texts(rng, n_texts, prop):
        ts = workload.ref_time(rng, 2016, 2043).replace(microsecond=0)
        scheds = _schedulers(rng, 3 if quick else 12)
        if prop == "C15":
            scheds = [x for x in scheds if x["mode"] != "poison"]
        runs = []
        if prop == "C15":
            for s in scheds:
                runs.append({"sched": s, "depth": 0})
            for s in rng.sample(scheds, 3 if quick else 6):
                runs.append({"sched": s, "depth": rng.choice([1, 2, 3, 10])})
            # (the tightest limit always once: whatever is streamed must still be derivable)
            runs.append({"sched": {"mode": "constant"}, "depth": 1})
            for s in rng.sample(scheds, 2 if quick else 4):
                runs.append({"sched": s, "depth": 0, "skip_prefilter": True})
            # the default configuration anchors bare clock times after scoring
            for s in rng.sample(scheds, 3 if quick else 6):
                runs.append({"sched": s, "depth": rng.choice([0, 0, 10]), "latent": True})
        elif len(text.split()) > 12:
            for s in [{"mode": "shipped"}, {"mode": "constant"}, {"mode": "neg_shipped"}]:
                runs.append({"sched": s, "depth": 10, "latent": rng.random() < 0.5})
        else:
            for s in scheds:
                runs.append({"sched": s, "depth": rng.choice([0, 0, 1, 3, 10]),
                             "latent": rng.random() < 0.4})
            # every option left at the library's default, in both entry points (the defaults
            # are: depth 10, anchoring on, relative_match_len 1.0)
            for s in rng.sample(scheds[:3], 2):
                runs.append({"sched": s, "depth": 10, "latent": True, "defaults": True})
        c = {"prop": prop, "text": text, "ts": fmt_ts(ts), "runs": runs,
             "cap": STATE_CAP[tier], "budget": BUDGET[tier]}
        if rng.random() < 0.15:
            c["relative_match_len"] = rng.choice([0.5, 0.8])
        cases.append(c)
    if prop == "C14":
        # very deep searches (hundreds of thousands of partial productions in one parse): the
        # emission history must stay free of not-better repeats however large the search's
        # own tables grow. One stream per case, no per-rule snapshots, own step budget.
        for i in range(2 if quick else 24):
            r = core.stream(core.derive_seed(seed, prop, tier, "deep", i), "workload")
            # (shapes measured on the unchanged tree: 200 000 - 350 000 scored productions)
            # (the most ambiguous variant - "morgen" is tomorrow and morning, a day <= 12 is also
            # an hour and a month - reaches 350 000; quick uses only that one)
            day = "morgen" if quick or i % 2 else r.choice(["freitag", "montag", "heute"])
            d, mo, y = r.randint(1, 12 if quick or i % 2 else 28), \
                r.choice(["mai", "juni", "okt", "märz", "dez"]), r.choice([2020, 2021, 2023])
            a, b = r.randint(1, 11), r.randint(12, 22)
            text = r.choice([
                "%s am %d. %s %d von %d bis %d uhr" % (day, d, mo, y, a, b),
                "%s am %d. %s %d from %d to %d uhr" % (day, d, mo, y, a, b),
                "%s am %d. %s %d %d bis %d uhr" % (day, d, mo, y, a, b)])
            ts = workload.ref_time(r, 2016, 2043).replace(microsecond=0)
            # under the constant scheduler every repeat of a value is a not-better repeat; the
            # (slow) shipped model and random scores only in the thorough tier
            sched = {"mode": "constant"} if quick or i % 3 else r.choice(
                [{"mode": "shipped"}, {"mode": "coarse", "seed": r.randrange(1 << 30)}])
            cases.append({"prop": prop, "text": text, "ts": fmt_ts(ts), "cap": STATE_CAP[tier],
                          "budget": 700000,
                          "runs": [{"sched": sched, "depth": 0, "light": True}]})
    return cases


def shrink_moves(case):
    runs = case["runs"]
    if len(runs) > 1:
        for r in runs:
            yield dict(case, runs=[r])
        # the prefilter oracle needs a pair
        for i in range(len(runs)):
            for j in range(i + 1, len(runs)):
                if runs[i]["sched"] == runs[j]["sched"] and \
                        bool(runs[i].get("skip_prefilter")) != bool(runs[j].get("skip_prefilter")):
                    yield dict(case, runs=[runs[i], runs[j]])
    toks = case["text"].split(" ")
    if len(toks) > 1:
        for cand in core.ddmin_list(toks):
            if cand:
                yield dict(case, text=" ".join(cand))
    if case.get("relative_match_len"):
        c = dict(case)
        del c["relative_match_len"]
        yield c
    if len(runs) == 1:
        r = runs[0]
        for mode in ("constant", "shipped"):
            if r["sched"]["mode"] != mode:
                yield dict(case, runs=[dict(r, sched={"mode": mode})])
        if r["depth"]:
            yield dict(case, runs=[dict(r, depth=0)])
        if r.get("latent"):
            yield dict(case, runs=[dict(r, latent=False)])
    if case["ts"] != "2020-02-03T10:20:30":
        yield dict(case, ts="2020-02-03T10:20:30")
