"""history-sim (C12): a parse is a pure function of its arguments.

Reference model: the stateless table M[(text, ts, options)] filled by *oracle workers* -
fresh interpreters started under different PYTHONHASHSEEDs that make exactly one call.
Simulated runs (one process, many calls): a seeded scheduler interleaves single steps of
several clients - complete calls, stepwise consumption of candidate streams, abandoned and
leaked streams, calls whose scorer raises, calls cut by a virtual deadline - and, in thread
mode, real threads that hold a baton one at a time and are pre-empted at line / opcode
events inside the library. After every step the observation must equal M; the shipped
model, the rule base and caller-owned arguments are digested before and after.
"""
import gc
import hashlib
import itertools
import json
import os
import pickle
import subprocess
from concurrent.futures import ThreadPoolExecutor

from qsim import core, entries, workload
from qsim.clocks import VirtualMonotonic, fmt_ts, parse_ts
from qsim.threads import Baton

PROPERTIES = ["C12"]
SIM_TIME_UNIT = "scheduler steps (ops + thread pre-emption points)"
HANG_S = 2400   # the longest sequential history of the thorough tier (thousands of parses) takes ~10 min on a busy machine
CHUNK = 1
COMPONENTS = {
    "real": ["all of /repo/ctparse (search, rules, scorer, model, latent post-processing)",
             "regex", "dateutil", "real threading.Thread objects (thread mode)",
             "fresh CPython interpreters as oracle workers"],
    "stub": ["scheduler: which client / thread performs the next step (seeded)",
             "Scorer raising at its k-th call (injected callback failure)",
             "time.perf_counter -> VirtualMonotonic for calls cut by a deadline"],
}
RULE = {"*": "one evaluation = one observed step (a complete call, one next() on a stream, a "
             "close, a failed call, a thread's completed call) compared with the stateless "
             "table; distinct = distinct schedule traces (hash of the interleaved op list, for "
             "threads of the switch trace) containing at least two clients whose steps really "
             "alternate"}
ASSUMPTIONS = {"*": [
    "inside one regex C call the thread cannot be pre-empted under our control (atomic step)",
    "pre-emption points are line (10%: opcode) events in files under /repo/ctparse",
    "a RandomScorer is part of the arguments: each call gets a fresh one from the same seed",
]}
EXPECTED_FAULTS = {"C12": ["abandon", "leak", "callback_raise", "library_call_raised", "deadline",
                           "preempt", "hashseed", "fresh_process"]}
DETERMINISM_SAMPLE = {"quick": 3, "thorough": 8}
EXHAUSTIVE = {}
MIN_CASES = {'quick': 300, 'thorough': 5000}

_M = {}


# --------------------------------------------------------------------------
# the stateless reference table
# --------------------------------------------------------------------------
def _ekey(entry, kind):
    return core.digest([entry, kind])


def _spawn(entry, kind, hashseed):
    env = dict(os.environ)
    env["PYTHONHASHSEED"] = str(hashseed)
    env["PYTHONDONTWRITEBYTECODE"] = "1"
    env["VERIF_REPO"] = core.REPO
    p = subprocess.run(
        [core.PYTHON, os.path.join(core.VERIF_ROOT, "qsim", "oracle_child.py")],
        input=json.dumps({"entry": entry, "kind": kind}), env=env,
        stdout=subprocess.PIPE, stderr=subprocess.PIPE, text=True, timeout=300)
    if p.returncode != 0:
        raise core.HarnessError("oracle worker failed: %s" % p.stderr[-1500:])
    out = json.loads(p.stdout)
    out.pop("hashseed", None)
    return out


def oracle(entry, kind, hashseeds):
    """M[entry]: evaluated under every given hash seed; disagreement is recorded."""
    k = _ekey(entry, kind)
    if k not in _M:
        vals = [_spawn(entry, kind, h) for h in hashseeds]
        agree = all(v == vals[0] for v in vals[1:])
        _M[k] = {"value": vals[0], "agree": agree, "hashseeds": list(hashseeds),
                 "all": vals if not agree else None}
    return _M[k]


def oracle_batch(items, hashseed):
    """Fill M for many (entry, kind) pairs with one child interpreter that forks per item."""
    todo = [(e, k) for e, k in items if _ekey(e, k) not in _M]
    if not todo:
        return
    env = dict(os.environ)
    env["PYTHONHASHSEED"] = str(hashseed)
    env["PYTHONDONTWRITEBYTECODE"] = "1"
    env["VERIF_REPO"] = core.REPO
    p = subprocess.run(
        [core.PYTHON, os.path.join(core.VERIF_ROOT, "qsim", "oracle_child.py")],
        input=json.dumps({"batch": [{"entry": e, "kind": k} for e, k in todo]}), env=env,
        stdout=subprocess.PIPE, stderr=subprocess.PIPE, text=True, timeout=900)
    if p.returncode != 0:
        raise core.HarnessError("oracle batch worker failed: %s" % p.stderr[-1500:])
    for (e, k), v in zip(todo, json.loads(p.stdout)):
        _M[_ekey(e, k)] = {"value": v, "agree": True, "hashseeds": [hashseed], "all": None}


def _needed(case):
    if case["kind"] == "long":
        return []
    need = []
    hs = case["hashseeds"]
    for e in case["pool"]:
        need.append((e, "gen", hs[:2]))
        need.append((e, "call", hs[2:3]))
    return need


def prepare(cases, jobs):
    """Fill M before the pool forks (workers inherit it)."""
    todo = {}
    for c in cases:
        for e, kind, hs in _needed(c):
            k = _ekey(e, kind)
            if k not in _M and k not in todo:
                todo[k] = (e, kind, hs)
    # long histories: hundreds of entries, evaluated by forking children of a few interpreters
    big = []
    for c in cases:
        if c["kind"] == "long":
            big += [(e, "call") for e in c["pool"]]
    if big:
        uniq = {}
        for e, k in big:
            uniq.setdefault(_ekey(e, k), (e, k))
        items = [v for kk, v in uniq.items() if kk not in _M]
        n = max(1, min(jobs, 16))
        parts = [items[i::n] for i in range(n)]
        hs = cases[0]["hashseeds"][2] if cases else 7
        with ThreadPoolExecutor(max_workers=n) as ex:
            list(ex.map(lambda part: oracle_batch(part, hs), [p_ for p_ in parts if p_]))
    if not todo:
        return
    # Most of the table is filled by a few interpreters per hash seed that fork once per
    # entry (each entry still is the first and only call of a pristine process image); a
    # sample is evaluated by genuinely fresh interpreters as well and must agree with that.
    by_hs = {}
    for k, (e, kind, hs) in todo.items():
        for h in hs:
            by_hs.setdefault(h, []).append((k, e, kind))
    results = {}

    def run_part(arg):
        h, part = arg
        env = dict(os.environ)
        env["PYTHONHASHSEED"] = str(h)
        env["PYTHONDONTWRITEBYTECODE"] = "1"
        env["VERIF_REPO"] = core.REPO
        p = subprocess.run(
            [core.PYTHON, os.path.join(core.VERIF_ROOT, "qsim", "oracle_child.py")],
            input=json.dumps({"batch": [{"entry": e, "kind": kind} for _, e, kind in part]}),
            env=env, stdout=subprocess.PIPE, stderr=subprocess.PIPE, text=True, timeout=900)
        if p.returncode != 0:
            raise core.HarnessError("oracle batch worker failed: %s" % p.stderr[-1500:])
        return [(k, h, v) for (k, _, _), v in zip(part, json.loads(p.stdout))]

    n = max(1, min(jobs, 16))
    parts = []
    for h, items in by_hs.items():
        per = max(1, n // max(1, len(by_hs)))
        for i in range(per):
            if items[i::per]:
                parts.append((h, items[i::per]))
    with ThreadPoolExecutor(max_workers=n) as ex:
        for chunk in ex.map(run_part, parts):
            for k, h, v in chunk:
                results.setdefault(k, {})[h] = v
    for k, (e, kind, hs) in todo.items():
        vals = [results[k][h] for h in hs]
        agree = all(v == vals[0] for v in vals[1:])
        _M[k] = {"value": vals[0], "agree": agree, "hashseeds": list(hs),
                 "all": vals if not agree else None}
    # cross-check: genuinely fresh interpreters for a sample
    sample = sorted(todo)[:: max(1, len(todo) // 10)][:10]
    with ThreadPoolExecutor(max_workers=n) as ex:
        fresh = list(ex.map(lambda k: _spawn(todo[k][0], todo[k][1], todo[k][2][0]), sample))
    for k, v in zip(sample, fresh):
        if v != _M[k]["value"]:
            _M[k]["agree"] = False
            _M[k]["all"] = [_M[k]["value"], v]


# --------------------------------------------------------------------------
# digests of shared state
# --------------------------------------------------------------------------
def _pred_sig(p):
    cl = getattr(p, "__closure__", None)
    vals = []
    for c in cl or ():
        try:
            v = c.cell_contents
        except ValueError:
            continue
        vals.append(v.__name__ if hasattr(v, "__name__") else repr(v))
    return [getattr(p, "__name__", "?"), vals]


def state_digest(lib):
    rule = lib["rule"]
    h = hashlib.sha256()
    sc = lib["ctparse"]._DEFAULT_SCORER
    h.update(type(sc).__name__.encode())
    mdl = getattr(sc, "_model", None)
    if mdl is not None:
        h.update(pickle.dumps(mdl, protocol=4))
    reg = [[name, [_pred_sig(p) for p in pats]] for name, (fn, pats) in rule.rules.items()]
    h.update(json.dumps(reg, sort_keys=True).encode())
    h.update(json.dumps(sorted((k, v) for k, v in rule._regex_str.items())).encode())
    h.update(json.dumps(sorted((k, v) for k, v in rule._str_regex.items())).encode())
    h.update(json.dumps(sorted((k, r.pattern) for k, r in rule._regex.items())).encode())
    h.update(str(rule._regex_cnt).encode())
    h.update(json.dumps(sorted(lib["types"].pod_hours.items())).encode())
    return h.hexdigest()[:16]


def _obj_digest(o):
    """state of a caller-owned object (attributes, recursively through pickle)"""
    try:
        return hashlib.sha256(pickle.dumps(o, protocol=4)).hexdigest()[:16]
    except Exception:
        return repr(sorted(vars(o).items())) if hasattr(o, "__dict__") else repr(o)


class InjectedFailure(Exception):
    pass


_EXC_KINDS = {"injected": InjectedFailure, "type": TypeError, "attribute": AttributeError,
              "value": ValueError, "key": KeyError, "index": IndexError}


class FailingScorer:
    """The caller's scorer: raises at its k-th call (an exception type of the caller's own, or
    one of the builtin ones a buggy scorer would raise); with a k never reached it is a healthy
    scorer of the very same class."""

    def __init__(self, inner, k, exc="injected"):
        self.inner, self.k, self.n = inner, k, 0
        self.exc, self.fired = exc, False

    def _tick(self):
        self.n += 1
        if self.n == self.k:
            self.fired = True
            raise _EXC_KINDS[self.exc]("scorer call %d" % self.k)

    def score(self, txt, ts, pp):
        self._tick()
        return self.inner.score(txt, ts, pp)

    def score_final(self, txt, ts, pp, prod):
        self._tick()
        return self.inner.score_final(txt, ts, pp, prod)


# --------------------------------------------------------------------------
# task mode
# --------------------------------------------------------------------------
class World:
    def __init__(self, lib, case, V, stats):
        self.lib, self.case, self.V, self.stats = lib, case, V, stats
        self.pool = case["pool"]
        self.hs = case["hashseeds"]
        self.handles = {}
        self.leaked = []
        self.obs = []

    def viol(self, oracle_id, cls, detail):
        self.V.append({"oracle": oracle_id, "class": cls, "detail": detail})

    def ref(self, e, kind):
        m = oracle(self.pool[e], kind, self.hs[:2] if kind == "gen" else self.hs[2:3])
        if not m["agree"]:
            self.viol("C12.hashseed", "fresh-processes-disagree",
                      "entry %r gives different results in fresh interpreters under "
                      "PYTHONHASHSEED %s" % (self.pool[e], m["hashseeds"]))
        return m["value"]

    def check_call(self, e, got, where):
        want = self.ref(e, "call")
        self.stats["n_eval"] += 1
        if got != want:
            self.viol("C12.history", "call-differs-from-fresh-process",
                      "%s: entry %r returned %r, a fresh process returns %r"
                      % (where, self.pool[e], got, want))

    def step(self, i, op):
        lib, pool = self.lib, self.pool
        kind = op["op"]
        where = "step %d %s" % (i, json.dumps(op))
        if kind == "CALL":
            e = op["e"]
            kw = entries.kwargs(lib, pool[e])
            if op.get("wrapped"):
                # the same scorer behind a healthy instance of the class that failed elsewhere
                kw["scorer"] = FailingScorer(kw.get("scorer") or lib["ctparse"]._DEFAULT_SCORER,
                                             10 ** 12)
            sc = kw.get("scorer")
            judge_arg = sc is not None and type(sc).__name__ not in ("RandomScorer",
                                                                     "FailingScorer")
            before = _obj_digest(sc) if judge_arg else None
            try:
                r = lib["ctparse"].ctparse(pool[e]["text"], **kw)
                got = {"call": core.cand_key(r) if hasattr(r, "resolution") else ["?", repr(r)]}
            except Exception as ex:
                got = {"exc": "%s: %s" % (type(ex).__name__, ex)}
            self.obs.append([i, "CALL", e, core.short(got)])
            self.check_call(e, got, where)
            if judge_arg and _obj_digest(sc) != before:
                self.viol("C12.arguments", "scorer-argument-modified:" + type(sc).__name__,
                          "%s: the scorer object passed by the caller was modified by the call"
                          % where)
        elif kind == "OPEN":
            e = op["e"]
            kw = entries.kwargs(lib, pool[e])
            if op.get("timeout"):
                kw["timeout"] = op["timeout"]      # virtual seconds on the case's clock
            g = lib["ctparse"].ctparse_gen(pool[e]["text"], **kw)
            self.handles[op["h"]] = [g, e, 0, bool(op.get("timeout"))]
            if len(self.handles) >= 2:
                self.stats["open2"] = self.stats.get("open2", 0) + 1
        elif kind == "ADVANCE":
            # (virtual) time passes while every open stream is suspended
            self.clock.now += op["by"]
            self.stats["faults"]["deadline"] += 1
        elif kind == "STEP":
            h = self.handles.get(op["h"])
            if h is None:
                return
            g, e, n, timed = h
            want = self.ref(e, "gen")
            self.stats["n_eval"] += 1
            try:
                c = next(g)
                got = core.cand_key(c)
                self.obs.append([i, "STEP", e, n, core.short(got)])
                if "stream" not in want or n >= len(want["stream"]) or want["stream"][n] != got:
                    exp = want.get("stream", want)
                    self.viol("C12.history", "stream-step-differs-from-fresh-process",
                              "%s: candidate #%d of entry %r is %r, a fresh process yields %r"
                              % (where, n, pool[e], got,
                                 exp[n] if isinstance(exp, list) and n < len(exp) else "<end>"))
                h[2] = n + 1
            except StopIteration:
                self.obs.append([i, "STEP", e, n, "end"])
                if timed:
                    # a stream with its own (positive) timeout may end anywhere: a prefix
                    pass
                elif "stream" not in want or n != len(want["stream"]):
                    self.viol("C12.history", "stream-length-differs-from-fresh-process",
                              "%s: stream of entry %r ended after %d candidates, a fresh "
                              "process yields %s" % (where, pool[e], n,
                                                     len(want.get("stream", []))))
                del self.handles[op["h"]]
            except Exception as ex:
                got = "%s: %s" % (type(ex).__name__, ex)
                self.obs.append([i, "STEP", e, n, got])
                if want.get("exc") != got:
                    self.viol("C12.history", "stream-raises-unlike-fresh-process",
                              "%s: entry %r raised %s, fresh process: %r"
                              % (where, pool[e], got, want.get("exc", "no exception")))
                del self.handles[op["h"]]
        elif kind == "ABANDON":
            h = self.handles.pop(op["h"], None)
            if h is not None:
                h[0].close()
                self.stats["faults"]["abandon"] += 1
        elif kind == "LEAK":
            h = self.handles.pop(op["h"], None)
            if h is not None:
                self.leaked.append(h[0])
                self.stats["faults"]["leak"] += 1
        elif kind == "GC":
            self.leaked = []
            gc.collect()
        elif kind == "FAIL":
            e = op["e"]
            inner = entries.mk_scorer(lib, pool[e].get("scorer")) or lib["ctparse"]._DEFAULT_SCORER
            sc = FailingScorer(inner, op["k"], op.get("exc", "injected"))
            try:
                r = lib["ctparse"].ctparse(pool[e]["text"], **entries.kwargs(lib, pool[e], sc))
                got = {"call": core.cand_key(r)}
                if sc.fired:
                    # the library swallowed the caller's exception and went on: whatever it
                    # returned is not what a fresh process returns for a scorer that works
                    self.obs.append([i, "FAIL", e, "swallowed"])
                    self.stats["faults"]["callback_raise"] += 1
                else:
                    self.obs.append([i, "FAIL", e, "completed"])
                    self.check_call(e, got, where)
            except Exception as ex:
                if sc.fired and isinstance(ex, _EXC_KINDS[sc.exc]):
                    self.stats["faults"]["callback_raise"] += 1
                    self.obs.append([i, "FAIL", e, "raised"])
                    return
                # the library itself raised before the caller's scorer did: compare with what a
                # fresh process does for this entry (normally: it completes)
                got = {"exc": "%s: %s" % (type(ex).__name__, ex)}
                self.obs.append([i, "FAIL", e, core.short(got)])
                self.check_call(e, got, where)
        elif kind == "CRASH":
            # a call that fails inside the library itself: the answer is not representable
            # (reference time at the very end / start of the datetime range), so a production
            # raises. Whatever happens here, later calls must be unaffected.
            from datetime import datetime as _dt
            txt, ts_ = op["how"]
            try:
                if op.get("gen"):
                    g = lib["ctparse"].ctparse_gen(txt, ts=_dt.fromisoformat(ts_), timeout=0)
                    for _ in range(op.get("steps", 50)):
                        next(g)
                else:
                    lib["ctparse"].ctparse(txt, ts=_dt.fromisoformat(ts_), timeout=0)
                self.obs.append([i, "CRASH", "completed"])
            except StopIteration:
                self.obs.append([i, "CRASH", "exhausted"])
            except Exception as e_:
                self.stats["faults"]["library_call_raised"] += 1
                self.obs.append([i, "CRASH", type(e_).__name__])
        elif kind == "TIMEOUT":
            e = op["e"]
            log = []
            clock = VirtualMonotonic(log)
            saved = lib["timers"].perf_counter
            lib["timers"].perf_counter = clock
            try:
                kw = entries.kwargs(lib, pool[e])
                kw["timeout"] = op["k"] - 0.5
                if op.get("single"):
                    # the single-result entry point under a deadline: whatever it returns,
                    # it must not influence later calls
                    lib["ctparse"].ctparse(pool[e]["text"], **kw)
                    got = None
                else:
                    got = [core.cand_key(c)
                           for c in lib["ctparse"].ctparse_gen(pool[e]["text"], **kw)]
            except Exception as ex:
                got = "%s: %s" % (type(ex).__name__, ex)
            finally:
                lib["timers"].perf_counter = saved
            if op.get("single") and got is None:
                self.stats["faults"]["deadline"] += 1
                self.obs.append([i, "TIMEOUT1", e, op["k"]])
                return
            want = self.ref(e, "gen")
            self.stats["n_eval"] += 1
            self.stats["faults"]["deadline"] += 1
            self.obs.append([i, "TIMEOUT", e, op["k"], core.short(got)])
            if "stream" in want:
                if not isinstance(got, list) or got != want["stream"][: len(got)]:
                    self.viol("C12.history", "deadline-call-not-a-prefix-of-fresh-process",
                              "%s: entry %r under a virtual deadline gave %r" % (where, pool[e], got))


class _Stuck(Exception):
    pass


def _alarm(signum, frame):
    raise _Stuck()


STEP_WALL_S = 90   # one step normally takes milliseconds; the only real-time bound here


def _exec_ops(lib, case, ops, V, stats):
    import signal
    w = World(lib, case, V, stats)
    before = state_digest(lib)
    # one virtual monotonic clock for the whole history: streams opened with a positive
    # timeout, ADVANCE ops and deadline-cut calls all live on it
    w.clock = VirtualMonotonic([])
    saved_clock = lib["timers"].perf_counter
    lib["timers"].perf_counter = w.clock
    old_handler = signal.signal(signal.SIGALRM, _alarm)
    for i, op in enumerate(ops):
        # bounded liveness: a step that blocks (e.g. on a lock still held by a suspended
        # candidate stream) is reported, not waited for
        signal.setitimer(signal.ITIMER_REAL, STEP_WALL_S)
        try:
            w.step(i, op)
        except _Stuck:
            w.viol("C12.liveness", "step-did-not-complete",
                   "step %d %s did not complete within %d s of wall time while other candidate "
                   "streams were open / abandoned (blocked on state held by another call?)"
                   % (i, json.dumps(op), STEP_WALL_S))
            signal.setitimer(signal.ITIMER_REAL, 0)
            signal.signal(signal.SIGALRM, old_handler)
            lib["timers"].perf_counter = saved_clock
            return w.obs
        finally:
            signal.setitimer(signal.ITIMER_REAL, 0)
        if op.get("checkpoint"):
            if state_digest(lib) != before:
                w.viol("C12.shared-state", "model-or-rule-base-modified",
                       "after step %d %s the digest of the shipped model / rule registry / "
                       "part-of-day table changed" % (i, json.dumps(op)))
                before = state_digest(lib)
    signal.signal(signal.SIGALRM, old_handler)
    lib["timers"].perf_counter = saved_clock
    for h in list(w.handles.values()):
        h[0].close()
    w.handles.clear()
    w.leaked = []
    gc.collect()
    if state_digest(lib) != before:
        w.viol("C12.shared-state", "model-or-rule-base-modified",
               "at the end of the history the digest of the shipped model / rule registry / "
               "part-of-day table differs from the one at its start")
    return w.obs


def _alternations(ops):
    """number of times consecutive steps belong to different clients"""
    last, n = None, 0
    for op in ops:
        c = op.get("c")
        if c is not None and last is not None and c != last:
            n += 1
        if c is not None:
            last = c
    return n


# --------------------------------------------------------------------------
# thread mode
# --------------------------------------------------------------------------
def _exec_threads(lib, case, V, stats):
    pool = case["pool"]
    hs = case["hashseeds"]
    results = {}

    def mk(ti, script):
        def body():
            out = []
            for op in script:
                e = op["e"]
                try:
                    if op["op"] == "FAIL":
                        # this thread's own scorer raises at its k-th call; the other threads
                        # must not notice
                        inner = entries.mk_scorer(lib, pool[e].get("scorer")) or \
                            lib["ctparse"]._DEFAULT_SCORER
                        try:
                            r = lib["ctparse"].ctparse(
                                pool[e]["text"],
                                **entries.kwargs(lib, pool[e], FailingScorer(inner, op["k"])))
                            out.append(("call", e, {"call": core.cand_key(r)}))
                        except InjectedFailure:
                            stats["faults"]["callback_raise"] += 1
                    elif op["op"] == "CALL":
                        r = lib["ctparse"].ctparse(pool[e]["text"], **entries.kwargs(lib, pool[e]))
                        out.append(("call", e, {"call": core.cand_key(r)}))
                    else:
                        s = [core.cand_key(c) for c in
                             lib["ctparse"].ctparse_gen(pool[e]["text"], **entries.kwargs(lib, pool[e]))]
                        out.append(("gen", e, {"stream": s}))
                except Exception as ex:
                    out.append((("call" if op["op"] == "CALL" else "gen"), e,
                                {"exc": "%s: %s" % (type(ex).__name__, ex)}))
            results[ti] = out
        return body

    sch = case["sched"]
    rng = core.stream(sch["seed"], "sched")
    baton = Baton(rng, sch["p"], core.REPO + os.sep + "ctparse", opcode=sch.get("opcode", False),
                  max_steps=sch.get("max_steps", 1_200_000 if sch.get("opcode") else 3_000_000))
    before = state_digest(lib)
    fns = [mk(i, s) for i, s in enumerate(case["scripts"])]
    ok = baton.run(fns)
    stats["faults"]["preempt"] += baton.switches
    stats["sim_time"] += baton.steps
    obs = [["switches", baton.switches, "steps", baton.steps, core.short(baton.trace)]]
    if not ok:
        V.append({"oracle": "C12.liveness", "class": "thread-did-not-finish",
                  "detail": "threads %s did not finish within the wall budget (steps=%d)"
                            % ([i for i, d in enumerate(baton.done) if not d], baton.steps)})
        return obs, baton
    for ti, msg in baton.errors:
        raise core.HarnessError("thread %d raised outside the library call: %s" % (ti, msg))
    for ti in sorted(results):
        for kind, e, got in results[ti]:
            want = oracle(pool[e], kind, hs[:2] if kind == "gen" else hs[2:3])["value"]
            stats["n_eval"] += 1
            obs.append([ti, kind, e, core.short(got)])
            if got != want:
                V.append({"oracle": "C12.threads",
                          "class": "result-differs-from-fresh-process",
                          "detail": "thread %d of %d (switch prob %s, %d switches): entry %r "
                                    "gave %r, a fresh process gives %r"
                                    % (ti, len(fns), sch["p"], baton.switches, pool[e],
                                       _brief(got), _brief(want))})
    if state_digest(lib) != before:
        V.append({"oracle": "C12.shared-state", "class": "model-or-rule-base-modified",
                  "detail": "digest of model / rule base changed during a threaded run"})
    return obs, baton


def _brief(x):
    s = repr(x)
    return s if len(s) < 400 else s[:400] + "..."


# --------------------------------------------------------------------------
def execute(case):
    lib = core.use_repo()
    V = []
    stats = {"n_eval": 0, "sim_time": 0,
             "faults": {k: 0 for k in EXPECTED_FAULTS["C12"]}}
    probes = {"alternating_steps": 0, "interleavings_enumerated": 0, "streams_open_at_once": 0,
              "thread_switches": 0}
    keys = []
    kind = case["kind"]
    # the table itself: agreement across hash seeds / fresh processes
    if case["kind"] == "long":
        oracle_batch([(e, "call") for e in case["pool"]], case["hashseeds"][2])
    for e in ([] if case["kind"] == "long" else case["pool"]):
        for k_, hs in (("gen", case["hashseeds"][:2]), ("call", case["hashseeds"][2:3])):
            m = oracle(e, k_, hs)
            stats["faults"]["fresh_process"] += len(hs)
            stats["faults"]["hashseed"] += len(hs)
            if not m["agree"]:
                V.append({"oracle": "C12.hashseed", "class": "fresh-processes-disagree",
                          "detail": "entry %r: fresh interpreters under PYTHONHASHSEED %s "
                                    "disagree: %s" % (e, m["hashseeds"], _brief(m["all"]))})
    obs = []
    if kind == "task":
        ops = case["ops"]
        obs = _exec_ops(lib, case, ops, V, stats)
        alt = _alternations(ops)
        probes["alternating_steps"] += alt
        probes["streams_open_at_once"] += stats.get("open2", 0)
        stats["sim_time"] += len(ops)
        if alt >= 2:
            keys.append(core.short(ops))
    elif kind == "long":
        # a long sequential history over hundreds of DISTINCT texts with a few texts coming
        # back (bounded memos / rings with an eviction bug need the distance)
        ops = case["ops"]
        obs = _exec_ops(lib, case, ops, V, stats)
        probes["long_history_calls"] = probes.get("long_history_calls", 0) + len(ops)
        stats["sim_time"] += len(ops)
        keys.append(core.short(["long", len(ops), case["pool"][0]]))
    elif kind == "pairs":
        # all interleavings of the steps of two streams
        a, b = case["lens"]
        n = 0
        for comb in itertools.combinations(range(a + b), a):
            cs = set(comb)
            ops = [{"op": "OPEN", "h": 0, "e": 0, "c": 0}, {"op": "OPEN", "h": 1, "e": 1, "c": 1}]
            for i in range(a + b):
                ops.append({"op": "STEP", "h": 0 if i in cs else 1, "c": 0 if i in cs else 1})
            o = _exec_ops(lib, case, ops, V, stats)
            n += 1
            keys.append(core.short([case["pool"], comb]))
            obs.append(core.short(o))
            if V:
                V[-1]["detail"] += " [interleaving %s of streams with %d/%d steps]" % (list(comb), a, b)
                break
        probes["interleavings_enumerated"] += n
        stats["sim_time"] += n * (a + b)
    elif kind == "threads":
        obs, baton = _exec_threads(lib, case, V, stats)
        probes["thread_switches"] += baton.switches
        if baton.switches >= 2:
            keys.append(core.short(baton.trace))
    else:
        raise core.HarnessError("unknown case kind %r" % kind)
    sample = {"kind": kind, "pool": case["pool"][:3]}
    if kind == "long":
        sample["ops"] = case["ops"][:6]
        sample["n_ops"] = len(case["ops"])
    elif kind == "task":
        sample["ops"] = case["ops"][:14]
    elif kind == "threads":
        sample["scripts"] = case["scripts"]
        sample["sched"] = case["sched"]
    else:
        sample["lens"] = case["lens"]
    return {"viol": V, "digest": core.digest(obs), "n_eval": stats["n_eval"], "keys": keys,
            "faults": stats["faults"], "probes": probes, "sim_time": stats["sim_time"],
            "sample": sample}


# --------------------------------------------------------------------------
# planning
# --------------------------------------------------------------------------
_RELDAY_WORDS = {"today", "heute", "tomorrow", "morgen", "tmrw", "übermorgen", "yesterday",
                 "gestern", "vorgestern"}


def _variants(rng, t):
    """Texts *related* to t: the same tokens in another order, the same weekday / part of day
    in another surface form or at another offset, a prefix in front. Calls that share tokens
    but not offsets are what trips over state shared between overlapping calls (a value object
    reused across calls, a scratch table indexed by match count, ...)."""
    from qsim.models import forms
    toks = t.split()
    out = []
    if len(toks) > 1:
        out.append(" ".join(toks[::-1]))
        out.append(" ".join(toks[1:] + toks[:1]))
    out.append(rng.choice(["am", "on", "at", "call bob", "um", "lunch"]) + " " + t)
    out.append(t + " " + rng.choice(["8pm", "3pm", "morning", "late evening", "9-11"]))
    low = [x.lower().strip(".,") for x in toks]
    for w in range(7):
        names = forms.DOW_LONG[w]
        for i, x in enumerate(low):
            if x in names:
                alt = rng.choice([n for n in names if n != x] or names)
                out.append(" ".join(toks[:i] + [alt] + toks[i + 1:]))
                out.append(rng.choice(["am", "this", "next"]) + " " + alt + " "
                           + rng.choice(["um 8", "8-10", "3pm", "morning"]))
    return [v for v in out if v and len(v) <= 44]


def _entry_pool(rng, n):
    texts = [t for t in workload.FIXED_TEXTS if t.strip() and len(t.split()) <= 6
             and t not in ("31.04.2020 9-5", "early early early early morning")]
    out = []
    pending = []
    fam = 0
    while len(out) < n:
        if pending:
            t = pending.pop()
        else:
            fam += 1
            r = rng.random()
            if r < 0.35:
                t = rng.choice(texts)
            elif r < 0.55:
                t = "%s %s" % (rng.choice(workload.DOWS), rng.choice(workload.CLOCKS + workload.PODS))
            elif r < 0.9:
                t = workload.structured_text(rng)
            else:
                t = workload.gen_text(rng, 4)
            if len(t) > 40:
                continue
            vs = _variants(rng, t)
            rng.shuffle(vs)
            pending = vs[: rng.choice([1, 2, 3])]
        e = {"text": t, "ts": fmt_ts(workload.ref_time(rng, 2016, 2043)), "fam": fam}
        if rng.random() < 0.35:
            e["latent_time"] = False
        if rng.random() < 0.3:
            # the un-truncated search only for short texts: beyond that it is legitimately
            # huge ('10/31/2018 10/31/2018') and nothing here would bound it
            e["max_stack_depth"] = rng.choice([0, 1, 3] if len(t.split()) <= 3 and len(t) <= 16
                                              else [1, 3])
        if rng.random() < 0.15:
            e["relative_match_len"] = rng.choice([0.5, 0.8])
        if rng.random() < 0.15:
            # several #labels, some typed twice (their order and multiplicity are part of the
            # result)
            labs = rng.choice(["#work #urgent #work #berlin", "#a #b #a", "#x #y #z #y", "#todo",
                               "#b #a", "#fun #fun #work", "#q1 #q2 #q3 #q4 #q1"])
            e["text"] = rng.choice(["%s %s" % (t, labs), "%s %s" % (labs, t)])
        r = rng.random()
        if r < 0.15:
            e["scorer"] = "dummy"
        elif r < 0.3:
            e["scorer"] = ["random", rng.randrange(1000)]
        elif r < 0.4:
            e["scorer"] = "shipped_explicit"
        out.append(e)
    return out


def _client_script(rng, c, n_entries, handle_base):
    """ops of one client; handles are client-local"""
    ops = []
    h = handle_base
    for _ in range(rng.randint(1, 4)):
        r = rng.random()
        e = rng.randrange(n_entries)
        if r < 0.3:
            ops.append({"op": "CALL", "e": e, "c": c})
        elif r < 0.75:
            o = {"op": "OPEN", "h": h, "e": e, "c": c}
            if rng.random() < 0.25:
                o["timeout"] = rng.choice([5, 20, 80, 300, 1000])
            ops.append(o)
            k = rng.choice([1, 2, 3, 5, 8, 40])
            for _ in range(k):
                ops.append({"op": "STEP", "h": h, "c": c})
            end = rng.random()
            if end < 0.4:
                ops.append({"op": "ABANDON", "h": h, "c": c})
            elif end < 0.6:
                ops.append({"op": "LEAK", "h": h, "c": c})
            else:
                for _ in range(rng.choice([3, 30])):
                    ops.append({"op": "STEP", "h": h, "c": c})
            h += 1
        elif r < 0.85:
            ops.append({"op": "FAIL", "e": e, "k": rng.choice([1, 2, 3, 5, 9, 17, 40]), "c": c,
                        "exc": rng.choice(["injected", "injected", "type", "attribute", "value",
                                           "key", "index"])})
            if rng.random() < 0.6:
                ops.append({"op": "CALL", "e": rng.randrange(n_entries), "c": c, "wrapped": True})
        elif r < 0.88:
            ops.append({"op": "CRASH", "c": c, "gen": rng.random() < 0.4, "steps": rng.choice([1, 3, 50]),
                        "how": rng.choice([["tomorrow", "9999-12-31T10:00:00"],
                                           ["übermorgen 5pm", "9999-12-31T23:59:59"],
                                           ["yesterday", "0001-01-01T00:00:00"],
                                           ["next monday 8-9", "9999-12-30T12:00:00"],
                                           ["heute für 3 tage", "9999-12-31T00:00:00"],
                                           ["5pm tomorrow morning", "9999-12-31T10:00:00"]])})
            if rng.random() < 0.7:
                ops.append({"op": "CALL", "e": e, "c": c})
        else:
            ops.append({"op": "TIMEOUT", "e": e, "k": rng.choice([1, 2, 3, 5, 9, 17, 40, 90]),
                        "c": c, "single": rng.random() < 0.4})
            if rng.random() < 0.6:
                ops.append({"op": "CALL", "e": e, "c": c})
    return ops


def _interleave(rng, scripts):
    pos = [0] * len(scripts)
    out = []
    live = [i for i, s in enumerate(scripts) if s]
    burst = rng.choice([1, 1, 2, 4])
    while live:
        i = rng.choice(live)
        for _ in range(rng.randint(1, burst)):
            if pos[i] < len(scripts[i]):
                out.append(scripts[i][pos[i]])
                pos[i] += 1
        if pos[i] >= len(scripts[i]):
            live.remove(i)
        if rng.random() < 0.05:
            out.append({"op": "GC"})
        if rng.random() < 0.06:
            out.append({"op": "ADVANCE", "by": rng.choice([10, 100, 1000, 1e6])})
    return out


def plan(prop, tier, seed):
    base = core.derive_seed(seed, prop, tier)
    rng = core.stream(base, "workload")
    quick = tier == "quick"
    n_pool = 44 if quick else 240
    big_pool = _entry_pool(rng, n_pool)
    hashseeds = [1 + rng.randrange(4000), 1 + rng.randrange(4000), 1 + rng.randrange(4000)]
    cases = []
    # -- task mode
    fams = {}
    for e in big_pool:
        fams.setdefault(e.pop("fam"), []).append(e)
    fam_list = [v for v in fams.values() if len(v) >= 2]

    def draw_pool(r, lo, hi):
        k = r.randint(lo, hi)
        if fam_list and r.random() < 0.75:
            f = r.choice(fam_list)
            pool = list(f[:k])
            relday = [e_ for e_ in pool
                      if any(w_ in e_["text"].lower().split() for w_ in _RELDAY_WORDS)]
            if relday and r.random() < 0.5:
                # a relative-day text under the same INSTANT written in two zones whose local
                # dates differ (aware reference times compare and hash by instant)
                from datetime import timedelta as _td, timezone as _tz
                base_ = workload.ref_time(r, 2016, 2043).replace(
                    hour=23, minute=r.choice([5, 30, 55]), second=0, microsecond=0)
                a = base_.replace(tzinfo=_tz.utc)
                b = a.astimezone(_tz(_td(hours=r.choice([1, 2, 5, -10]))))
                e1, e2 = dict(relday[0]), dict(relday[0])
                e1["ts"], e2["ts"] = fmt_ts(a), fmt_ts(b)
                pool = [e1, e2] + pool[: max(0, k - 2)]
            # the same text under another reference time / option set is "related" too
            if r.random() < 0.7:
                e = dict(r.choice(pool))
                v = r.random()
                if v < 0.25:
                    e["ts"] = fmt_ts(workload.ref_time(r, 2016, 2043))
                elif v < 0.45:
                    # the same text on the SAME day at another hour (an answer remembered per
                    # reference day is wrong as soon as the time of day matters)
                    t0_ = parse_ts(e["ts"]) if "ts" in e else workload.ref_time(r, 2016, 2043)
                    e["ts"] = fmt_ts(t0_.replace(hour=r.choice([0, 5, 9, 13, 18, 23]),
                                                 minute=r.choice([0, 30, 59])))
                elif v < 0.7:
                    # the same text under another scorer
                    e["scorer"] = r.choice(["dummy", "shipped_explicit", None,
                                            ["random", r.randrange(1000)]])
                    if e["scorer"] is None:
                        e.pop("scorer")
                else:
                    # the same INSTANT written in two zones whose local dates differ
                    from datetime import datetime as _dt, timedelta as _td, timezone as _tz
                    base_ = workload.ref_time(r, 2016, 2043).replace(
                        hour=23, minute=r.choice([5, 30, 55]), second=0, microsecond=0)
                    a = base_.replace(tzinfo=_tz.utc)
                    b = a.astimezone(_tz(_td(hours=r.choice([1, 2, 5, -10]))))
                    e["ts"] = fmt_ts(a)
                    e2 = dict(e)
                    e2["ts"] = fmt_ts(b)
                    pool.append(e2)
                pool.append(e)
            while len(pool) < min(k, 2):
                pool.append(r.choice(big_pool))
            return pool
        return r.sample(big_pool, k)

    for i in range(260 if quick else 6000):
        r = core.stream(core.derive_seed(base, "task", i), "sched")
        pool = draw_pool(r, 2, 5)
        n_clients = r.randint(2, 6)
        scripts = [_client_script(r, c, len(pool), 100 * c) for c in range(n_clients)]
        ops = _interleave(r, scripts)
        for j in range(len(ops)):
            if r.random() < 0.08:
                ops[j] = dict(ops[j], checkpoint=True)
        cases.append({"kind": "task", "pool": pool, "ops": ops, "hashseeds": hashseeds})
    # -- overlap scenarios: a stream suspended after a few candidates while the SAME text is
    #    parsed under another scorer / reference time / option set, then drained
    for i in range(80 if quick else 1500):
        r = core.stream(core.derive_seed(base, "overlap", i), "sched")
        e = dict(r.choice(big_pool))
        e.pop("fam", None)
        e2 = dict(e)
        v = r.random()
        if v < 0.5:
            e2["scorer"] = r.choice([s_ for s_ in ("dummy", "shipped_explicit",
                                                   ["random", r.randrange(1000)])
                                     if s_ != e.get("scorer")])
        elif v < 0.75:
            e2["ts"] = fmt_ts(workload.ref_time(r, 2016, 2043))
        else:
            e2["max_stack_depth"] = r.choice([1, 3, 10])
            e2["latent_time"] = not e.get("latent_time", True)
        ops = [{"op": "OPEN", "h": 0, "e": 0, "c": 0}]
        ops += [{"op": "STEP", "h": 0, "c": 0}] * r.randint(1, 3)
        if r.random() < 0.5:
            ops.append({"op": "CALL", "e": 1, "c": 1})
        else:
            ops.append({"op": "OPEN", "h": 1, "e": 1, "c": 1})
            ops += [{"op": "STEP", "h": 1, "c": 1}] * r.randint(1, 4)
        ops += [{"op": "STEP", "h": 0, "c": 0}] * 60
        ops += [{"op": "STEP", "h": 1, "c": 1}] * 60
        ops.append({"op": "CALL", "e": r.randrange(2), "c": 1, "checkpoint": True})
        cases.append({"kind": "task", "pool": [e, e2], "ops": ops, "hashseeds": hashseeds})
    # -- offset scenarios: the same expression at DIFFERENT character offsets in two (or three)
    #    streams that are alive at once and stepped alternately: a value object shared between
    #    parses (a module-level constant, a memo entry) gets its span re-stamped by the other
    #    stream while this one still holds it un-emitted
    for i in range(160 if quick else 1500):
        r = core.stream(core.derive_seed(base, "offset", i), "sched")
        e_ = r.choice(workload.CLOCKS[-8:] + workload.CLOCKS[-8:] + workload.CLOCKS
                      + workload.PODS + workload.DURS + workload.RELDAYS[:9] + workload.DOWS)
        t1 = r.choice(["%s", "%s", "at %s", "%s #x"]) % e_
        t2 = r.choice(["tomorrow from %s until %s", "call bob %s", "heute %s", "am freitag %s",
                       "%s - %s", "lunch with anna and bob %s", "from %s to %s", "x %s"])
        t2 = t2.replace("%s", e_, 1)
        if "%s" in t2:
            t2 = t2.replace("%s", r.choice([e_, r.choice(workload.CLOCKS[-8:]),
                                            r.choice(workload.CLOCKS)]), 1)
        if len(t2) > 60:
            continue
        ts_ = fmt_ts(workload.ref_time(r, 2016, 2043))
        lat = r.random() < 0.25      # (spans of bare times are visible with anchoring off)
        e1 = {"text": t1, "ts": ts_, "latent_time": lat}
        e2 = {"text": t2, "ts": ts_, "latent_time": lat, "max_stack_depth": 10}
        if r.random() < 0.3:
            e1["scorer"] = e2["scorer"] = "dummy"
        ops = [{"op": "OPEN", "h": 0, "e": 1, "c": 0}]
        ops += [{"op": "STEP", "h": 0, "c": 0}] * r.choice([0, 1, 1, 2, 3, 5])
        ops.append({"op": "OPEN", "h": 1, "e": 0, "c": 1})
        a_left, b_left = 70, 40
        while a_left or b_left:
            if b_left and (not a_left or r.random() < 0.5):
                ops.append({"op": "STEP", "h": 1, "c": 1})
                b_left -= 1
            else:
                ops.append({"op": "STEP", "h": 0, "c": 0})
                a_left -= 1
            if r.random() < 0.04:
                ops.append({"op": "CALL", "e": 0, "c": 1})
        ops.append({"op": "CALL", "e": 1, "c": 0, "checkpoint": True})
        cases.append({"kind": "task", "pool": [e1, e2], "ops": ops, "hashseeds": hashseeds})
    # -- instant aliases: one text, reference times that denote the same instant in zones
    #    whose local dates differ (aware datetimes compare and hash by instant)
    for i in range(70 if quick else 900):
        r = core.stream(core.derive_seed(base, "alias", i), "sched")
        from datetime import timedelta as _td, timezone as _tz
        fam_ = r.random()
        if fam_ < 0.45:
            t = r.choice(workload.RELDAYS[:9] + ["this monday", "next friday", "8pm", "morning",
                                                "eom", "31."])
        elif fam_ < 0.6:
            # weekday + day of month, day + month, month alone, weekday alone: every rule that
            # searches the calendar forwards from the reference date
            t = r.choice(["%s %s" % (r.choice(workload.DOWS), r.choice(workload.DOMS)),
                          "%s %s" % (r.choice(workload.DOMS), r.choice(workload.MONTHS)),
                          "%s %s" % (r.choice(workload.MONTHS), r.choice(workload.DOMS)),
                          r.choice(workload.DOWS), r.choice(workload.MONTHS),
                          r.choice(workload.DOMS), r.choice(workload.PODS)])
        else:
            t = workload.structured_text(r)
        if r.random() < 0.4:
            t += " " + r.choice(workload.CLOCKS)
        base_ = workload.ref_time(r, 2016, 2043).replace(
            hour=23, minute=r.choice([5, 30, 55]), second=0, microsecond=0)
        if r.random() < 0.4:
            # a partial date written with the fields of the earlier of the two local dates: it
            # means that very day in one zone and a later one in the other
            dn = ["monday", "tuesday", "wednesday", "thursday", "friday", "saturday",
                  "sunday"][base_.weekday()]
            mn = ["january", "february", "march", "april", "may", "june", "july", "august",
                  "september", "october", "november", "december"][base_.month - 1]
            t = r.choice(["%s %d." % (dn, base_.day), "%s %dth" % (dn[:3], base_.day),
                          "%d. %s" % (base_.day, mn), "%s %d" % (mn, base_.day), dn,
                          "%d." % base_.day, "%s %d. %s" % (dn, base_.day, mn)])
        a = base_.replace(tzinfo=_tz.utc)
        b = a.astimezone(_tz(_td(hours=r.choice([1, 2, 5, -10, 9]))))
        e1, e2 = {"text": t, "ts": fmt_ts(a)}, {"text": t, "ts": fmt_ts(b)}
        if r.random() < 0.5:
            e1, e2 = e2, e1
        ops = [{"op": "CALL", "e": 0, "c": 0}, {"op": "CALL", "e": 1, "c": 1},
               {"op": "CALL", "e": 0, "c": 0}, {"op": "OPEN", "h": 0, "e": 1, "c": 1}]
        ops += [{"op": "STEP", "h": 0, "c": 1}] * 40
        cases.append({"kind": "task", "pool": [e1, e2], "ops": ops, "hashseeds": hashseeds})
    # -- long sequential histories
    for i, n_distinct in enumerate([450] if quick else [300, 450, 700, 1100, 2100, 3000]):
        r = core.stream(core.derive_seed(base, "long", i), "sched")
        texts = []
        seen_t = set()
        while len(texts) < n_distinct:
            t = "%s %s" % (r.choice(workload.DOWS + workload.RELDAYS[:9]),
                           r.choice(workload.CLOCKS))
            if r.random() < 0.5:
                t = r.choice(["am", "on", "at", "call", "lunch", "meet"]) + " " + t
            if r.random() < 0.3:
                t += " " + r.choice(["pm", "uhr", "morning", "abends", "sharp"])
            if t not in seen_t and len(t) <= 40:
                seen_t.add(t)
                texts.append(t)
        ts0 = fmt_ts(workload.ref_time(r, 2016, 2043))
        pool = [{"text": t, "ts": ts0} for t in texts]
        back = r.sample(range(min(40, n_distinct)), 8)
        ops = [{"op": "CALL", "e": j, "c": 0} for j in range(n_distinct)]
        ops += [{"op": "CALL", "e": j, "c": 0} for j in back]
        # and once more after the early ones have certainly been pushed out
        ops += [{"op": "CALL", "e": j, "c": 0} for j in r.sample(range(n_distinct), 12)]
        ops[-1]["checkpoint"] = True
        cases.append({"kind": "long", "pool": pool, "ops": ops, "hashseeds": hashseeds})
    # -- all interleavings of two short streams: needs stream lengths -> uses the table
    short_entries = []
    with ThreadPoolExecutor(max_workers=min(16, os.cpu_count() or 1)) as ex:
        list(ex.map(lambda e: oracle(e, "gen", hashseeds[:2]), big_pool))
    for e in big_pool:
        if e.get("scorer") and isinstance(e["scorer"], list):
            continue
        m = oracle(e, "gen", hashseeds[:2])
        n = len(m["value"].get("stream", [])) if "stream" in m["value"] else None
        if n is not None and 1 <= n <= (3 if quick else 6):
            short_entries.append((e, n + 1))  # +1: the step that observes the end
    r = core.stream(base, "pairs")
    r.shuffle(short_entries)
    n_pairs = 8 if quick else 60
    for i in range(min(n_pairs, len(short_entries) // 2)):
        (e1, a), (e2, b) = short_entries[2 * i], short_entries[2 * i + 1]
        cases.append({"kind": "pairs", "pool": [e1, e2], "lens": [a, b], "hashseeds": hashseeds})
    # -- thread mode
    for i in range(56 if quick else 1500):
        r = core.stream(core.derive_seed(base, "threads", i), "sched")
        pool = draw_pool(r, 2, 4)
        n_threads = r.choice([2, 3, 4, 8])
        scripts = [[{"op": r.choice(["CALL", "GEN", "CALL", "GEN", "FAIL"]),
                     "e": r.randrange(len(pool)), "k": r.choice([1, 2, 5, 9, 17])}
                    for _ in range(r.randint(1, 2))] for _ in range(n_threads)]
        cases.append({"kind": "threads", "pool": pool, "scripts": scripts, "hashseeds": hashseeds,
                      "sched": {"seed": r.randrange(1 << 40),
                                "p": r.choice([0.0003, 0.001, 0.005, 0.02, 0.1]),
                                "opcode": r.random() < 0.1}})
    return cases


def shrink_moves(case):
    kind = case["kind"]
    if kind == "long":
        ops = case["ops"]
        for cand in core.ddmin_list(ops):
            if cand:
                yield dict(case, ops=cand)
        return
    if kind == "task":
        ops = case["ops"]
        for cand in core.ddmin_list(ops):
            yield dict(case, ops=cand)
        used = sorted({op["e"] for op in ops if "e" in op})
        if len(used) < len(case["pool"]):
            remap = {e: i for i, e in enumerate(used)}
            yield dict(case, pool=[case["pool"][e] for e in used],
                       ops=[dict(op, e=remap[op["e"]]) if "e" in op else op for op in ops])
    elif kind == "threads":
        sc = case["scripts"]
        if len(sc) > 2:
            for i in range(len(sc)):
                yield dict(case, scripts=sc[:i] + sc[i + 1:])
        for i, s in enumerate(sc):
            if len(s) > 1:
                yield dict(case, scripts=sc[:i] + [s[:1]] + sc[i + 1:])
        if case["sched"].get("opcode"):
            yield dict(case, sched=dict(case["sched"], opcode=False))
