"""clock-sim (C03, C04, C05, C06): behaviour as a function of the clock.

World: one host wall clock (VirtualWall, seam ``datetime`` of module ctparse.ctparse),
clients whose own clocks are skewed against it, and a seeded schedule of clock events
(ticks, jumps to boundaries, jumps of days..years, back-steps) interleaved with requests:
  parse   ctparse(text)                 reference time omitted -> the library reads the host clock
  parse   ctparse(text, ts=client clock)
  open/step  a candidate stream whose consumption is spread over several clock events
Oracle: the calendar reference model evaluated at the instant the call read (omitted ts) or
was given (explicit ts).
"""
from datetime import datetime, timedelta

from qsim import core, workload
from qsim.clocks import VirtualWall, parse_ts, fmt_ts
from qsim.core import vkey
from qsim.models import calendar as cal
from qsim.models import forms

PROPERTIES = ["C03", "C04", "C05", "C06"]
SIM_TIME_UNIT = "simulated wall-clock seconds spanned by the sessions"
HANG_S = 600
COMPONENTS = {
    "real": ["ctparse.ctparse (ctparse, ctparse_gen incl. the omitted-ts branch)",
             "all rules (ctparse.time.rules), latent post-processing, shipped model ranking",
             "regex", "dateutil"],
    "stub": ["datetime.now() -> VirtualWall (ticks, jumps, boundaries, back-steps, per-read advance)",
             "client clocks = host clock + skew"],
}
RULE = {
    "*": "one evaluation = one request (call or stream) issued at a simulated instant and compared "
         "with the calendar model; distinct = distinct (surface-form template, boundary class of "
         "the instant: weekday, month-end/leap/year-end flags, position relative to the requested "
         "time, omitted/explicit ts), non-trivial = the model's answer differs from the reference "
         "date itself",
}
ASSUMPTIONS = {"*": [
    "calendar model uses datetime.date/timedelta/calendar.monthrange only",
    "surface forms are the alternatives of the rules' own patterns, expanded by hand (qsim/models/forms.py)",
    "the best-ranked reading (what ctparse() returns) is what is judged",
    "pod_hours start hours are read from the library's own table",
]}
EXPECTED_FAULTS = {p: ["clock_jump", "boundary", "backstep", "skew", "tick"] for p in PROPERTIES}
EXPECTED_FAULTS["C06"] = ["boundary", "backstep", "skew"]  # every C06 request places the clock
DETERMINISM_SAMPLE = {"quick": 4, "thorough": 6}
EXHAUSTIVE = {}
MIN_CASES = {'quick': 300, 'thorough': 3500}


def expected(lib, form, ts, latent):
    c, p = form["c"], form["p"]
    if c == "rel":
        return cal.rel_day(ts, p[0])
    if c == "now":
        return cal.now(ts)
    if c == "eom":
        return cal.eom(ts)
    if c == "eoy":
        return cal.eoy(ts)
    if c == "dow_after":
        return cal.weekday_after(ts, p[0])
    if c == "dow_next":
        return cal.weekday_next(ts, p[0])
    if c == "dom":
        return cal.dom_after(ts, p[0])
    if c == "doy":
        return cal.doy_on_or_after(ts, p[0], p[1])
    if c == "dowdom":
        return cal.dowdom_candidates(ts, p[0], p[1])[0]
    if c == "pod":
        return cal.pod_day(ts, p[0], lib["types"].pod_hours[p[0]][0])
    if c == "abs":
        return cal.absolute(*p)
    if c == "clock":
        return cal.clock_anchored(ts, p[0], p[1]) if latent else cal.clock(p[0], p[1])
    raise core.HarnessError("unknown concept %r" % c)


class _Budget(Exception):
    pass


class _Capped:
    def __init__(self, inner, cap):
        self.inner, self.cap, self.n = inner, cap, 0

    def score(self, *a):
        self.n += 1
        if self.n > self.cap:
            raise _Budget()
        return self.inner.score(*a)

    def score_final(self, *a):
        self.n += 1
        if self.n > self.cap:
            raise _Budget()
        return self.inner.score_final(*a)


def _unlimited(lib, text, ts, latent):
    """best reading without the stack-depth limit (step-capped); None if unknown"""
    try:
        r = lib["ctparse"].ctparse(text, ts=ts, timeout=0, latent_time=latent, max_stack_depth=0,
                                   scorer=_Capped(lib["ctparse"]._DEFAULT_SCORER, 30000))
        return vkey(r.resolution) if r is not None else None
    except Exception:
        return None


def _same(got, want, form, ts=None):
    if got == want:
        return True
    if form["c"] == "dowdom" and ts is not None:
        return got in cal.dowdom_candidates(ts, form["p"][0], form["p"][1])
    # a clock time given to the hour only may leave the minute unset
    if (form["c"] == "clock" or form.get("hour_only")) and got and got[0] == "T" \
            and want[5] == 0 and got[5] is None:
        g = list(got)
        g[5] = 0
        return g == want
    return False


def _kind(got, want):
    if got is None:
        return "no-result"
    if got[0] != "T":
        return {"I": "interval-instead", "D": "duration-instead"}.get(got[0], "other-type")
    names = ["", "year", "month", "day", "hour", "minute", "dow", "pod"]
    diff = [names[i] for i in range(1, 8) if got[i] != want[i]]
    if set(diff) <= {"year", "month", "day"}:
        return "wrong-date:" + "+".join(diff)
    if set(diff) <= {"hour", "minute"}:
        return "wrong-clock:" + "+".join(diff)
    return "wrong-fields:" + "+".join(diff)


def _clock_kind(got, want):
    """C06: judge the clock part first, the anchored date second"""
    if got is None:
        return "no-result"
    if got[0] != "T":
        return {"I": "interval-instead", "D": "duration-instead"}.get(got[0], "other-type")
    if got[4] is None:
        return "no-clock:" + ("date+pod" if got[7] and got[3] else "pod" if got[7] else "date")
    if got[4] != want[4] or (got[5] or 0) != (want[5] or 0):
        return "wrong-clock"
    return "wrong-anchor-date"


def _bclass(ts, form):
    """boundary class of an instant (for the distinctness measure)"""
    import calendar as _c
    last = _c.monthrange(ts.year, ts.month)[1]
    flags = [ts.weekday(), ts.day == last, ts.month == 12 and ts.day == 31,
             ts.month == 2 and ts.day >= 28, _c.isleap(ts.year),
             ts.hour == 23 and ts.minute == 59, ts.hour == 0 and ts.minute == 0]
    if form["c"] == "clock":
        h, mi = form["p"]
        ref = ts.hour * 60 + ts.minute
        req = h * 60 + mi
        flags.append("eq" if ref == req else ("before" if ref < req else "after"))
    if form["c"] in ("dom",):
        flags.append(ts.day == form["p"][0])
        flags.append(last < form["p"][0])
    if form["c"] == "doy":
        flags.append((ts.day, ts.month) == tuple(form["p"]))
    return flags


def execute(case):
    lib = core.use_repo()
    prop = case["prop"]
    mod = lib["ctparse"]
    wall = VirtualWall(parse_ts(case["start"]), case.get("read_advance_us", 0),
                       case.get("utc_offset_s", 0))
    V, keys, obs = [], [], []
    faults = {"clock_jump": 0, "boundary": 0, "backstep": 0, "skew": 0, "tick": 0}
    probes = {"omitted_ts_requests": 0, "explicit_ts_requests": 0, "streams_across_clock_events": 0,
              "midnight_crossed_between_stream_steps": 0, "model_differs_from_today": 0,
              "same_instant_other_zone": 0, "alias_in_excluded_window": 0,
              "aware_ts_in_dst_zone": 0, "aware_ts_next_to_dst_switch": 0}
    n_eval = 0
    t_min = t_max = wall.t
    seen_abs = {}
    streams = {}
    probed = {}

    def viol(oracle, cls, detail):
        V.append({"oracle": oracle, "class": cls, "detail": detail})

    def req_ts(ev):
        """(ts argument or None, instant the model is evaluated at is decided after the call)"""
        if ev.get("client") is None:
            return None
        t_ = wall.t + timedelta(seconds=case["clients"][ev["client"]])
        if ev.get("tzrule"):
            # an aware reference time in a zone WITH daylight-saving rules (POSIX rule string,
            # no zone database needed): the offset changes from one day to the next
            from dateutil import tz as _dtz
            return t_.replace(tzinfo=_dtz.tzstr(ev["tzrule"]))
        if ev.get("tz") is not None:
            # the client hands over an AWARE datetime: what counts is its own wall-clock
            # reading (its fields), not the UTC instant
            from datetime import timezone
            if ev.get("alias_tz") is not None:
                # the same INSTANT as the request before, handed over by a client in another
                # zone (aware datetimes compare and hash by instant, the rules read the fields)
                t_ = t_.replace(tzinfo=timezone(timedelta(minutes=ev["alias_tz"]))) \
                    .astimezone(timezone(timedelta(minutes=ev["tz"])))
                probes["same_instant_other_zone"] += 1
            else:
                t_ = t_.replace(tzinfo=timezone(timedelta(minutes=ev["tz"])))
        return t_

    saved_dt = mod.datetime
    mod.datetime = wall.datetime_class()
    # every other module of the package that imported the datetime class gets the simulated
    # one as well: a rule that asks the wall clock itself (instead of using ts) is then seen
    # as a clock read of a request that must not read the clock
    import datetime as _dtmod
    import sys as _sys
    others = []
    for name_, m_ in list(_sys.modules.items()):
        if name_.startswith("ctparse") and m_ is not mod and m_ is not None \
                and getattr(m_, "datetime", None) is _dtmod.datetime:
            others.append(m_)
            m_.datetime = mod.datetime
    try:
        for i, ev in enumerate(case["events"]):
            k = ev["ev"]
            wall.seq = i
            if k == "tick":
                wall.advance(microseconds=ev["us"])
                faults["tick"] += 1
            elif k == "set":
                old = wall.t
                wall.set(parse_ts(ev["to"]))
                faults["boundary" if ev.get("boundary") else "clock_jump"] += 1
                if wall.t < old:
                    faults["backstep"] += 1
            elif k == "jump":
                old = wall.t
                try:
                    wall.advance(seconds=ev["s"])
                except OverflowError:
                    continue
                if not (datetime(1970, 1, 1) <= wall.t <= datetime(2100, 12, 31)):
                    wall.set(old)
                    continue
                faults["clock_jump"] += 1
                if ev["s"] < 0:
                    faults["backstep"] += 1
            elif k == "parse":
                form = ev["form"]
                latent = ev.get("latent", True)
                ts_arg = req_ts(ev)
                n_reads = len(wall.reads)
                try:
                    r = mod.ctparse(form["s"], ts=ts_arg, timeout=0, latent_time=latent)
                    got = vkey(r.resolution) if r is not None else None
                    exc = None
                except Exception as e:
                    got, exc = None, "%s: %s" % (type(e).__name__, e)
                n_eval += 1
                reads = wall.reads[n_reads:]
                if ts_arg is None:
                    probes["omitted_ts_requests"] += 1
                    if len(reads) != 1:
                        viol(prop + ".clock-reads", "omitted-ts:%d-reads" % len(reads),
                             "event %d %r: a call without reference time read the wall clock %d "
                             "times (must be exactly once)" % (i, form["s"], len(reads)))
                        if not reads:
                            continue
                    instant = reads[0][1]
                else:
                    probes["explicit_ts_requests"] += 1
                    if ev.get("tzrule"):
                        probes["aware_ts_in_dst_zone"] += 1
                        if ts_arg.utcoffset() != (ts_arg + timedelta(days=1)).utcoffset() or \
                                ts_arg.utcoffset() != (ts_arg - timedelta(days=1)).utcoffset():
                            probes["aware_ts_next_to_dst_switch"] += 1
                    if case["clients"][ev["client"]]:
                        faults["skew"] += 1
                    if reads:
                        viol(prop + ".clock-reads", "explicit-ts:clock-read",
                             "event %d %r: a call with explicit reference time %s read the host "
                             "clock (%s)" % (i, form["s"], ts_arg, reads[0][1]))
                    instant = ts_arg.replace(tzinfo=None)
                if ev.get("alias_tz") is not None and (
                        (form.get("two_digit") and not _two_digit_ok(form, instant))
                        or (prop == "C06" and _military_excluded(form, instant))):
                    # the other zone's calendar fields fall into an excluded window (appendix A)
                    probes["alias_in_excluded_window"] += 1
                    continue
                t_min, t_max = min(t_min, instant), max(t_max, instant)
                obs.append([i, form["s"], fmt_ts(instant), got if exc is None else exc])
                want = expected(lib, form, instant, latent)
                if want[1:4] != [instant.year, instant.month, instant.day]:
                    probes["model_differs_from_today"] += 1
                    keys.append(core.short([form["t"], _bclass(instant, form),
                                            ts_arg is None, latent]))
                if exc is not None:
                    # totality is C01's business; a crash is still a wrong answer here
                    viol(prop + ".value", form["t"] + "|raised:" + exc.split(":")[0],
                         "event %d: %r at %s raised %s" % (i, form["s"], instant, exc))
                    continue
                if not _same(got, want, form, instant):
                    got_k = got
                    if form.get("hour_only") and got and got[0] == "T" and got[5] is None \
                            and got[4] is not None:
                        got_k = list(got)
                        got_k[5] = 0       # an unset minute next to a set hour is :00
                    kind = _kind(got_k, want) if form["c"] != "clock" else _clock_kind(got, want)
                    # mechanism probe: is the right reading produced but lost by the default
                    # stack-depth limit (max_stack_depth=10)?
                    # (probed once per template and failure kind within a session: the probe
                    # is a full un-truncated search)
                    pk = (form["t"], kind)
                    if pk not in probed:
                        got0 = _unlimited(lib, form["s"],
                                          ts_arg if ts_arg is not None else instant, latent)
                        probed[pk] = got0 is not None and _same(got0, want, form, instant)
                    if probed[pk]:
                        kind = "lost-by-depth-limit"
                    elif form["t"].startswith("abs:monthname+hour-only-clock") and got_k \
                            and got_k[0] == "T" and got_k[2:4] == want[2:4] \
                            and (got_k[4] is None or got_k[4] == want[4]) \
                            and (got_k[4] is None or got_k[1] != want[1]):
                        # one fingerprint for the known ranking defect of this family: written
                        # day and month kept, the year and / or the whole clock dropped
                        kind = "year-or-clock-dropped"
                    viol(prop + ".value", form["t"] + "|" + kind,
                         "event %d: %r at %s (%s ts, latent=%s) -> %s, calendar model: %s"
                         % (i, form["s"], instant, "omitted" if ts_arg is None else "explicit",
                            latent, got, want))
                if form["c"] == "abs":
                    first = seen_abs.setdefault(form["s"], (instant, got))
                    if first[1] != got:
                        viol(prop + ".clock-independent", form["t"],
                             "%r resolves to %s at %s but to %s at %s"
                             % (form["s"], first[1], first[0], got, instant))
            elif k == "open":
                form = ev["form"]
                ts_arg = req_ts(ev)
                g = mod.ctparse_gen(form["s"], ts=ts_arg, timeout=0,
                                    latent_time=ev.get("latent", True))
                streams[ev["h"]] = {"g": g, "form": form, "ts_arg": ts_arg, "got": [],
                                    "reads0": len(wall.reads), "opened": wall.t, "ev": ev,
                                    "steps": 0, "days": {wall.t.date()}}
                if len(wall.reads) != streams[ev["h"]]["reads0"]:
                    pass
            elif k == "step":
                st = streams.get(ev["h"])
                if st is None:
                    continue
                st["days"].add(wall.t.date())
                for _ in range(ev.get("n", 1)):
                    try:
                        c = next(st["g"])
                        st["got"].append(core.cand_key(c))
                        st["steps"] += 1
                    except StopIteration:
                        st["done"] = True
                        break
                    except Exception as e:
                        st["exc"] = "%s: %s" % (type(e).__name__, e)
                        st["done"] = True
                        break
                if st.get("done"):
                    n_eval += 1
                    reads = wall.reads[st["reads0"]:]
                    form = st["form"]
                    mine = [r_ for r_ in reads]
                    # reads of other requests in between are not separable by position only;
                    # streams are therefore never overlapped with other omitted-ts requests
                    if st["ts_arg"] is None:
                        if len(mine) != 1:
                            viol(prop + ".clock-reads", "stream:%d-reads" % len(mine),
                                 "stream %r read the wall clock %d times" % (form["s"], len(mine)))
                        instant = mine[0][1] if mine else None
                    else:
                        instant = st["ts_arg"]
                    if instant is not None and "exc" not in st:
                        probes["streams_across_clock_events"] += 1
                        if len(st["days"]) > 1:
                            probes["midnight_crossed_between_stream_steps"] += 1
                        mod.datetime = saved_dt
                        try:
                            ref = [core.cand_key(c) for c in mod.ctparse_gen(
                                form["s"], ts=instant, timeout=0,
                                latent_time=st["ev"].get("latent", True))]
                        finally:
                            mod.datetime = wall.datetime_class()
                        obs.append([i, "stream", form["s"], fmt_ts(instant), core.short(st["got"])])
                        if ref != st["got"]:
                            viol(prop + ".stream-stable", form["t"],
                                 "stream of %r opened at %s, first consumed at %s and stepped "
                                 "while the clock moved differs from the stream of one call at "
                                 "that instant (%d vs %d candidates)"
                                 % (form["s"], st["opened"], instant, len(st["got"]), len(ref)))
                    del streams[ev["h"]]
    finally:
        mod.datetime = saved_dt
        for m_ in others:
            m_.datetime = _dtmod.datetime
    return {"viol": V, "digest": core.digest(obs), "n_eval": n_eval, "keys": keys,
            "faults": faults, "probes": probes,
            "sim_time": int(abs((t_max - t_min).total_seconds())),
            "sample": {"start": case["start"], "clients_skew_s": case["clients"],
                       "events": case["events"][:10], "n_events": len(case["events"])}}


# --------------------------------------------------------------------------
# planning
# --------------------------------------------------------------------------
def _boundary_instant(rng, lo=2016, hi=2043):
    if hi >= 2099 and rng.random() < 0.3:
        # the Gregorian exception: 2100 is not a leap year (8-year leap gap 2096-2104)
        t = workload.ref_time(rng, 2096, 2099)
        if rng.random() < 0.3:
            t = t.replace(month=rng.choice([2, 3]), day=rng.choice([1, 28]))
        return t
    t = workload.ref_time(rng, lo, hi)
    if rng.random() < 0.08:
        # the eve / the day / the morrow of a daylight-saving switch somewhere
        d = rng.choice(rng.choice(list(_dst_switches(t.year).values())))
        t = t.replace(month=d.month, day=d.day) + timedelta(days=rng.choice([-1, -1, 0, 1]))
    return t


DST_RULES = {"eu": "CET-1CEST,M3.5.0,M10.5.0/3", "us": "EST5EDT,M3.2.0,M11.1.0",
             "au": "AEST-10AEDT,M10.1.0,M4.1.0/3"}


def _nth_sunday(y, m, n):
    """n = 1, 2 ... or 5 for the last Sunday of the month"""
    if n == 5:
        d = datetime(y + (m == 12), m % 12 + 1, 1) - timedelta(days=1)
        return d - timedelta(days=(d.weekday() + 1) % 7)
    d = datetime(y, m, 1)
    return d + timedelta(days=(6 - d.weekday()) % 7 + 7 * (n - 1))


def _dst_switches(y):
    return {"eu": [_nth_sunday(y, 3, 5), _nth_sunday(y, 10, 5)],
            "us": [_nth_sunday(y, 3, 2), _nth_sunday(y, 11, 1)],
            "au": [_nth_sunday(y, 10, 1), _nth_sunday(y, 4, 1)]}


def _dst_rule_near(t):
    """the rule string of a zone that switches its offset within a day of *t*, if any"""
    for k, days in _dst_switches(t.year).items():
        for d in days:
            if abs((t.replace(hour=0, minute=0, second=0, microsecond=0) - d).days) <= 1:
                return DST_RULES[k]
    return None


def _clock_instant(rng, h, mi, lo=2016, hi=2043):
    """an instant placed relative to the requested minute, on a boundary-biased date"""
    d = _boundary_instant(rng, lo, hi).replace(hour=0, minute=0, second=0, microsecond=0)
    req = timedelta(hours=h, minutes=mi)
    r = rng.random()
    if r < 0.2:
        off = req + timedelta(seconds=rng.choice([0, 0, 30, 59]), microseconds=rng.choice([0, 999999]))
    elif r < 0.4:
        off = req - timedelta(seconds=rng.choice([1, 30, 60]), microseconds=rng.choice([0, 1]))
    elif r < 0.55:
        off = req + timedelta(seconds=rng.choice([60, 61, 120]))
    else:
        off = timedelta(seconds=rng.randint(0, 86399))
    t = d + off
    if t < datetime(1971, 1, 1):
        t = d
    return t


def _forms_for(prop, rng, n):
    if prop == "C03":
        return forms.c03_forms(rng, n)
    if prop == "C04":
        return forms.c04_forms(rng, n)
    if prop == "C05":
        return forms.c05_forms(rng, n)
    return forms.c06_forms(rng, n)


def _two_digit_ok(form, ts):
    """dd.mm.yy: generated only where the pattern can express the year without reference to the
    clock AND the month-name notation's window agrees (DESIGN appendix A)"""
    y = form["p"][0]
    if y < 2000:
        # 19yy written as dd.mm.yy: the numeric pattern always answers 20yy while the
        # month-name notation of the same date windows it - kept in the workload (for
        # instants where the window says 19yy) so that the disagreement is reported
        return 2000 <= ts.year <= 2089 and (y % 100) >= (ts.year % 100) + 10
    # 20yy written as dd.mm.yy: the numeric pattern does not look at the clock at all, so
    # it is asked at every reference time (only the month-name notation windows the year)
    return True


def _military_excluded(form, ts):
    """four-digit hhmm equal to the current year, or to the year three calendar months ahead
    (i.e. next year from 1 October on), is read as a year (rules.py _is_valid_military_time;
    DESIGN appendix A). The exclusion is exactly that window, not a day more."""
    if form["t"] != "clock:{hh}{mm}":
        return False
    v = form["p"][0] * 100 + form["p"][1]
    return v == ts.year or (ts.month >= 10 and v == ts.year + 1)


def _session(prop, rng, n_req):
    # most sessions live in the 28-year cycle the properties name; every fifth one anywhere in
    # 1971-2099 (incl. the 2096-2100 leap gap)
    wide = prop == "C05" or rng.random() < 0.2
    lo, hi = (1971, 2099) if wide else (2016, 2043)
    start = _boundary_instant(rng, lo, hi)
    n_clients = rng.randint(1, 4)
    clients = [0] + [rng.choice([0, 3, -3, 86400, -86400 * 40, 86400 * 366, 59, -1])
                     for _ in range(n_clients - 1)]
    case = {"prop": prop, "start": fmt_ts(start), "clients": clients,
            "read_advance_us": rng.choice([0, 0, 1, 1000, 61_000_000]), "events": [],
            # the simulated machine is rarely in UTC
            "utc_offset_s": rng.choice([0, 3600, 7200, -18000, 19800, 43200])}
    evs = case["events"]
    t = start          # planner's own idea of the host clock (kept in step with the events)
    fs = _forms_for(prop, rng, n_req)
    if prop == "C05":
        # several notations of the same dates, asked again after the clock moved
        base = fs[: max(3, n_req // 6)]
        fs = [rng.choice(base) for _ in range(n_req)]
    h = 0
    for f in fs:
        # --- a clock event before (most) requests
        r = rng.random()
        if prop == "C04" and f["c"] == "dowdom" and r < 0.4:
            # the reference date itself carries the written weekday and day of month (or is the
            # day after such a date), at any time of day incl. its last microsecond
            nt = _boundary_instant(rng, lo, hi)
            for _ in range(366 * 12):
                if nt.day == f["p"][1] and nt.weekday() == f["p"][0]:
                    break
                nt += timedelta(days=1)
            if rng.random() < 0.25:
                nt += timedelta(days=1)
            if nt.year <= hi:
                evs.append({"ev": "set", "to": fmt_ts(nt), "boundary": True})
                t = nt
        elif prop == "C04" and f["c"] == "pod" and r < 0.5:
            # place the clock around the start hour of the part of day (the library's own
            # table is the specification of "a part of day the library itself knows")
            h0 = core.use_repo()["types"].pod_hours[f["p"][0]][0] % 24
            nt = _clock_instant(rng, h0, 0, lo, hi)
            evs.append({"ev": "set", "to": fmt_ts(nt), "boundary": True})
            t = nt
        elif prop == "C05" and f.get("mil_clock") and f["mil_clock"][0] == 20 and r < 0.5:
            # the reference year (or, from October on, the year after it) spells the digits
            # of the clock
            yr = 2000 + f["mil_clock"][1]
            nt = _boundary_instant(rng, lo, hi)
            nt = nt.replace(year=yr, day=min(nt.day, 28)) if rng.random() < 0.6 else \
                nt.replace(year=yr - 1, month=rng.choice([10, 11, 12]), day=min(nt.day, 28))
            evs.append({"ev": "set", "to": fmt_ts(nt), "boundary": True})
            t = nt
        elif prop == "C05" and f["c"] == "abs" and r < 0.18:
            # the reference time ON or right next to the written date (an explicit date must
            # not start to behave like "today" / "this week")
            y_, m_, d_ = f["p"][:3]
            base_ = datetime(y_, m_, d_) + timedelta(days=rng.choice([0, 0, 0, 1, -1, 7, -7]))
            nt = base_ + timedelta(seconds=rng.choice([0, 8 * 3600, 15 * 3600, 86399,
                                                       rng.randint(0, 86399)]))
            if datetime(1971, 1, 1) <= nt <= datetime(2099, 12, 31):
                evs.append({"ev": "set", "to": fmt_ts(nt), "boundary": True})
                t = nt
        elif prop == "C06" and rng.random() < 0.75:
            # (the remaining quarter takes the general clock events below: ticks, jumps, boundaries)
            nt = _clock_instant(rng, f["p"][0], f["p"][1], lo, hi)
            if (f["t"] in ("clock:{hh}{mm} uhr", "clock:{hh}{mm}h")
                    or f["t"].startswith("clock:{hh12}{mm} ap")) and f["p"][0] == 20 \
                    and rng.random() < 0.6:
                # the reference year (or the year three months ahead) spells the same digits
                yr = 2000 + f["p"][1]
                if rng.random() < 0.4:
                    nt = nt.replace(year=yr - 1, month=rng.choice([10, 11, 12]), day=min(nt.day, 28))
                else:
                    nt = nt.replace(year=yr, day=min(nt.day, 28))
            elif f["t"] == "clock:{hh}{mm}" and f["p"][0] == 20 and rng.random() < 0.6:
                # bare hhmm next to the window in which it is read as a year: the last days of
                # September of the year before, the first days of the year after
                yr = 2000 + f["p"][1]
                mo, da, yy = rng.choice([(9, 28, yr - 1), (9, 29, yr - 1), (9, 30, yr - 1),
                                         (9, 30, yr - 1), (1, 1, yr + 1), (1, 2, yr + 1),
                                         (6, 30, yr - 1), (12, 31, yr - 2)])
                nt = nt.replace(year=yy, month=mo, day=da)
            evs.append({"ev": "set", "to": fmt_ts(nt), "boundary": True})
            t = nt
        elif r < 0.35:
            nt = _boundary_instant(rng, lo, hi)
            evs.append({"ev": "set", "to": fmt_ts(nt), "boundary": True})
            t = nt
        elif r < 0.55:
            s = rng.choice([1, 59, 60, 3600, 86399, 86400, -1, -61, -86400, 86400 * 31,
                            -86400 * 365, 86400 * 1461, 7 * 86400])
            nt = t + timedelta(seconds=s)
            if datetime(1971, 1, 1) <= nt <= datetime(2099, 12, 31):
                evs.append({"ev": "jump", "s": s})
                t = nt
        elif r < 0.8:
            us = rng.choice([1, 999, 1000000, 59999999, 1])
            evs.append({"ev": "tick", "us": us})
            t = t + timedelta(microseconds=us)
        # --- the request
        latent = True
        if prop == "C06":
            latent = rng.random() < 0.6
        client = None if rng.random() < 0.5 else rng.randrange(len(clients))
        inst = t if client is None else t + timedelta(seconds=clients[client])
        if not (datetime(1970, 1, 2) <= inst <= datetime(2100, 12, 30)):
            client, inst = None, t
        if f.get("two_digit") and not _two_digit_ok(f, inst):
            continue
        if prop == "C06" and _military_excluded(f, inst):
            continue
        if rng.random() < 0.12:
            # a stream whose consumption is spread over clock events
            evs.append({"ev": "open", "h": h, "form": f, "client": client, "latent": latent})
            for _ in range(rng.randint(1, 3)):
                evs.append({"ev": "step", "h": h, "n": rng.choice([1, 1, 2])})
                if rng.random() < 0.7:
                    s = rng.choice([1, 60, 86400, -86400, 3600 * 5])
                    nt = t + timedelta(seconds=s)
                    if datetime(1971, 1, 1) <= nt <= datetime(2099, 12, 31):
                        evs.append({"ev": "jump", "s": s})
                        t = nt
            evs.append({"ev": "step", "h": h, "n": 100000})
            h += 1
        else:
            pe = {"ev": "parse", "form": f, "client": client, "latent": latent}
            near = _dst_rule_near(inst) if client is not None else None
            if near and rng.random() < 0.6:
                pe["tzrule"] = near
            elif client is not None and rng.random() < 0.2:
                if rng.random() < 0.2:
                    pe["tzrule"] = rng.choice(sorted(DST_RULES.values()))
                else:
                    pe["tz"] = rng.choice([120, -480, 330, 60, 0, 720])
            evs.append(pe)
            if pe.get("tz") is not None and rng.random() < 0.5:
                evs.append(dict(pe, alias_tz=pe["tz"],
                                tz=rng.choice([z for z in (120, -480, 330, 60, 0, 720, -180)
                                               if z != pe["tz"]])))
            if rng.random() < 0.15:
                # the same question again a little earlier / later on the same day (an answer
                # remembered per text or per reference *day* is wrong as soon as the hour matters)
                s_ = rng.choice([-3600, -7200, -5 * 3600, 3600, 3 * 3600, -60, 60, -11 * 3600])
                nt = t + timedelta(seconds=s_)
                if nt.date() == t.date():
                    evs.append({"ev": "jump", "s": s_})
                    t = nt
                    evs.append({"ev": "parse", "form": f, "client": client, "latent": latent})
        # a read advances the host clock
        if client is None and case["read_advance_us"]:
            t = t + timedelta(microseconds=case["read_advance_us"])
    return case


def _walker(prop, rng, days, battery):
    """thorough: visit consecutive days of the 28-year cycle, every form of the battery"""
    cases = []
    for d0 in range(0, len(days), 8):
        evs = []
        chunk = days[d0:d0 + 8]
        for d in chunk:
            tod = rng.choice([timedelta(0), timedelta(hours=23, minutes=59, seconds=59),
                              timedelta(seconds=rng.randint(0, 86399))])
            evs.append({"ev": "set", "to": fmt_ts(d + tod), "boundary": True})
            for f in battery:
                evs.append({"ev": "parse", "form": f, "client": 0 if rng.random() < 0.5 else None,
                            "latent": True})
        cases.append({"prop": prop, "start": fmt_ts(chunk[0]), "clients": [0],
                      "read_advance_us": 0, "events": evs})
    return cases


def plan(prop, tier, seed):
    base = core.derive_seed(seed, prop, tier)
    quick = tier == "quick"
    cases = []
    n_sessions = 320 if quick else 4000
    for i in range(n_sessions):
        rng = core.stream(core.derive_seed(base, "session", i), "sched")
        cases.append(_session(prop, rng, rng.randint(40, 90)))
    if not quick and prop in ("C03", "C04"):
        rng = core.stream(base, "walker")
        d = datetime(2016, 1, 1)
        days = []
        while d <= datetime(2043, 12, 31):
            days.append(d)
            d += timedelta(days=1)
        battery = forms.c03_all_forms() if prop == "C03" else forms.c04_all_forms(rng)
        # every day of the cycle x a rotating third of the battery (every form meets every
        # weekday / month-end / leap-day class many times over)
        third = [battery[i::3] for i in range(3)]
        for j in range(3):
            cases += _walker(prop, rng, days[j::3], third[j])
    return cases


def shrink_moves(case):
    evs = case["events"]
    if len(evs) > 1:
        for cand in core.ddmin_list(evs):
            yield dict(case, events=cand)
    if case.get("read_advance_us"):
        yield dict(case, read_advance_us=0)
    if any(case["clients"]):
        yield dict(case, clients=[0] * len(case["clients"]))
    if case.get("utc_offset_s") not in (None, 7200):
        yield dict(case, utc_offset_s=7200)
