"""store-sim (C16): the naive-Bayes scorer against its textbook definition, over seeded
histories of FIT / PREDICT / SCORE / SAVE / LOAD / RESTART on a simulated model store with
write faults, plus restart in a fresh interpreter under another hash seed.
"""
import bz2 as real_bz2
import errno
import io
import json
import math
import os
import shutil
import subprocess
import tempfile

from qsim import core, workload
from qsim.clocks import parse_ts
from qsim.models.textbook_nb import TextbookNB, StoredParamsNB

PROPERTIES = ["C16"]
SIM_TIME_UNIT = "operations of the fit/predict/save/load histories"
HANG_S = 600
COMPONENTS = {
    "real": ["ctparse.count_vectorizer", "ctparse.nb_estimator", "ctparse.pipeline",
             "ctparse.nb_scorer (train_naive_bayes, save_naive_bayes, NaiveBayesScorer, "
             "from_model_file)", "ctparse.partial_parse.PartialParse", "pickle", "bz2 codec",
             "real disk + fresh interpreter for RESTART", "shipped model (CORPUS ops)"],
    "stub": ["bz2.open inside ctparse.nb_scorer -> SimStore (in-memory files, ENOSPC / short "
             "write injected at the k-th write)"],
}
RULE = {"*": "one evaluation = one judged operation (a prediction, a score, a save+load or restart "
             "battery, a corpus candidate score); distinct = distinct (training corpus, query) "
             "digests whose query contains at least one known and - for the 'unseen' probes - "
             "one unknown n-gram, plus distinct persistence histories"}
ASSUMPTIONS = {"*": [
    "training sets contain both classes and at least one non-empty document",
    "tokens contain no blanks (n-grams are blank-joined strings, as in the library's own use)",
    "reference model: qsim/models/textbook_nb.py, tolerance 1e-9 (relative to max(1,|x|))",
    "a load of a file whose save raised is recorded, not judged (nothing is promised about it)",
]}
EXPECTED_FAULTS = {"C16": ["write_error", "restart"]}
DETERMINISM_SAMPLE = {"quick": 4, "thorough": 8}
EXHAUSTIVE = {}
MIN_CASES = {'quick': 330, 'thorough': 7000}
TOL = 1e-9


class SimStore:
    """In-memory files behind the seam ``bz2`` of module ctparse.nb_scorer."""

    def __init__(self, stats):
        self.files = {}
        self.torn = {}
        self.stats = stats
        self.fail_at = None

    def open(self, fname, mode="rb", **kw):
        if not str(fname).startswith("sim://"):
            return real_bz2.open(fname, mode, **kw)
        if "w" in mode:
            return _Writer(self, fname, self.fail_at)
        if fname not in self.files:
            if fname in self.torn:
                return real_bz2.open(io.BytesIO(self.torn[fname]), "rb")
            raise FileNotFoundError(fname)
        return real_bz2.open(io.BytesIO(self.files[fname]), "rb")

    def __getattr__(self, name):
        return getattr(real_bz2, name)


class _Writer:
    def __init__(self, store, name, fail_at):
        self.store, self.name, self.fail_at = store, name, fail_at
        self.comp = real_bz2.BZ2Compressor()
        self.buf = bytearray()
        self.n = 0
        self.failed = False
        store.files.pop(name, None)   # opening for writing truncates
        store.torn.pop(name, None)

    def write(self, b):
        self.n += 1
        b = bytes(b)
        if self.fail_at is not None and self.n == self.fail_at:
            # short write, then the disk is full
            self.buf += self.comp.compress(b[: len(b) // 2])
            self.failed = True
            self.store.torn[self.name] = bytes(self.buf)
            self.store.stats["write_error"] += 1
            raise OSError(errno.ENOSPC, "No space left on device (injected at write %d)" % self.n)
        self.buf += self.comp.compress(b)
        return len(b)

    def close(self):
        if not self.failed:
            self.buf += self.comp.flush()
            self.store.files[self.name] = bytes(self.buf)

    def __enter__(self):
        return self

    def __exit__(self, *a):
        self.close()
        return False


def _close(a, b):
    return abs(a - b) <= TOL * max(1.0, abs(a), abs(b))


def _mk_pp(lib, spans, rules):
    Artifact = lib["types"].Artifact
    prod = []
    for s, e in spans:
        a = Artifact()
        a.mstart, a.mend = s, e
        prod.append(a)
    return lib["partial_parse"].PartialParse(tuple(prod), tuple(rules))


def _battery(lib, pipeline, docs, pps):
    """bit-exact fingerprints of a fixed set of predictions and scores (a computation that
    raises is recorded as such, so that batteries stay comparable)"""
    out = []
    for d in docs:
        try:
            for pair in pipeline.predict_log_proba([d]):
                out += [float(pair[0]).hex(), float(pair[1]).hex()]
        except Exception as e:
            out += ["raise:" + type(e).__name__] * 2
    sc = lib["nb_scorer"].NaiveBayesScorer(pipeline)
    for txt_len, spans, rules in pps:
        try:
            pp = _mk_pp(lib, spans, rules)
            out.append(float(sc.score("x" * txt_len, None, pp)).hex())
            out.append(float(sc.score_final("x" * txt_len, None, pp, pp.prod[-1])).hex())
        except Exception as e:
            out += ["raise:" + type(e).__name__] * 2
    return out


_CHILD = r"""
import sys, json
sys.path.insert(0, %r)
from qsim import core
lib = core.use_repo()
from qsim.engines import storesim
req = json.load(sys.stdin)
sc = lib["nb_scorer"].NaiveBayesScorer.from_model_file(req["path"])
print(json.dumps(storesim._battery(lib, sc._model, req["docs"], req["pps"])))
"""


def _restart(lib, pipeline, docs, pps, hashseed):
    tmp = tempfile.mkdtemp(prefix="qsim-store-", dir="/dev/shm" if os.path.isdir("/dev/shm") else None)
    try:
        path = os.path.join(tmp, "model.pbz")
        import pathlib
        # str and os.PathLike spellings of the file name are both legitimate
        lib["nb_scorer"].save_naive_bayes(pipeline, pathlib.Path(path) if hashseed % 2 else path)
        env = dict(os.environ)
        env["PYTHONHASHSEED"] = str(hashseed)
        env["PYTHONDONTWRITEBYTECODE"] = "1"
        env["VERIF_REPO"] = core.REPO
        p = subprocess.run([core.PYTHON, "-c", _CHILD % core.VERIF_ROOT],
                           input=json.dumps({"path": path, "docs": docs, "pps": pps}), env=env,
                           stdout=subprocess.PIPE, stderr=subprocess.PIPE, text=True, timeout=300)
        if p.returncode != 0:
            return None, p.stderr[-800:]
        return json.loads(p.stdout.strip().splitlines()[-1]), None
    finally:
        shutil.rmtree(tmp, ignore_errors=True)


def execute(case):
    lib = core.use_repo()
    nbs = lib["nb_scorer"]
    V, keys, obs = [], [], []
    faults = {"write_error": 0, "restart": 0}
    probes = {"unseen_ngram_in_query": 0, "empty_query": 0, "repeated_token_query": 0,
              "lopsided_posterior": 0, "refit_same_object": 0, "file_replaced_by_rename": 0, "load_of_torn_file": 0, "save_fault_not_reached": 0, "load_compared": 0,
              "model_intact_after_failed_save": 0, "corpus_candidates": 0, "huge_alphabet_fit": 0}
    n_eval = 0
    store = SimStore(faults)
    pipes, refs, saved = {}, {}, {}
    corpora = {}
    scorers = {}
    docs_b, pps_b = case["battery_docs"], case["battery_pps"]

    def viol(oracle, cls, detail):
        V.append({"oracle": oracle, "class": cls, "detail": detail})

    saved_bz2 = nbs.bz2
    nbs.bz2 = store
    try:
        for i, op in enumerate(case["ops"]):
            k = op["op"]
            if k == "FIT":
                if "gen" in op:
                    X, y = _gen_corpus(op["gen"])
                    probes["huge_alphabet_fit"] += 1
                else:
                    X, y = op["X"], op["y"]
                corpora[op["p"]] = X
                if op.get("via", "train") == "train":
                    pl = nbs.train_naive_bayes(X, [v == 1 for v in y])
                else:
                    pl = lib["pipeline"].CTParsePipeline(
                        lib["count_vectorizer"].CountVectorizer(ngram_range=(1, 3)),
                        lib["nb_estimator"].MultinomialNaiveBayes(alpha=op["alpha"])).fit(X, y)
                pipes[op["p"]] = pl
                refs[op["p"]] = TextbookNB(X, y, alpha=op.get("alpha", 1.0))
                obs.append([i, "FIT", len(X)])
                bad = [x for x in _battery(lib, pl, docs_b, pps_b) if x.startswith("raise:")]
                if bad:
                    viol("C16.finite", "prediction-" + bad[0],
                         "op %d: a prediction / score of the fixed battery raised %s on the "
                         "freshly fitted model (battery docs up to %d tokens)"
                         % (i, bad[0][6:], max(len(d) for d in docs_b)))
            elif k == "REFIT":
                # fit() again on the SAME pipeline object: the model must be that of the new
                # training set, nothing of the first fit may survive
                if op["p"] not in pipes:
                    continue
                X, y = op["X"], op["y"]
                alpha = getattr(pipes[op["p"]].estimator, "alpha", 1.0)
                try:
                    pipes[op["p"]] = pipes[op["p"]].fit(X, y)
                except Exception as e:
                    viol("C16.textbook", "refit-raises:" + type(e).__name__,
                         "op %d: fitting an already fitted pipeline again raised %s: %s"
                         % (i, type(e).__name__, e))
                    continue
                refs[op["p"]] = TextbookNB(X, y, alpha=alpha)
                probes["refit_same_object"] += 1
                obs.append([i, "REFIT", len(X)])
            elif k == "PREDICT":
                if op["p"] not in pipes:
                    continue
                pl, ref = pipes[op["p"]], refs[op["p"]]
                if "doc_slice" in op:
                    # a stretch of a training document (all its n-grams are known)
                    di, st, ln = op["doc_slice"]
                    Xp = corpora.get(op["p"]) or [[]]
                    doc = Xp[di % len(Xp)][st:st + ln]
                else:
                    doc = op["doc"]
                n_eval += 1
                try:
                    got = pl.predict_log_proba([doc])[0]
                except Exception as e:
                    viol("C16.textbook", "predict-raises:" + type(e).__name__,
                         "op %d: predict_log_proba(%r) raised %s: %s" % (i, doc, type(e).__name__, e))
                    continue
                want = ref.predict_log_proba(doc)
                obs.append([i, "PREDICT", [float(got[0]).hex(), float(got[1]).hex()]])
                grams = set(" ".join(doc[a:a + n]) for n in (1, 2, 3) for a in range(len(doc) - n + 1))
                if grams - ref.vocab:
                    probes["unseen_ngram_in_query"] += 1
                if not doc:
                    probes["empty_query"] += 1
                if abs(want[1] - want[0]) > 36.0:
                    probes["lopsided_posterior"] += 1
                if len(set(doc)) < len(doc):
                    probes["repeated_token_query"] += 1
                if grams & ref.vocab:
                    keys.append(core.short([op["p"], case["ops"][0].get("X") if False else i,
                                            core.short(doc), core.short(sorted(ref.vocab))]))
                if not (math.isfinite(got[0]) and math.isfinite(got[1])):
                    viol("C16.finite", "log-proba-not-finite",
                         "op %d: predict_log_proba(%r) = %r" % (i, doc, got))
                    continue
                if not (_close(got[0], want[0]) and _close(got[1], want[1])):
                    viol("C16.textbook", "log-proba-differs",
                         "op %d: doc %r: library %r, textbook multinomial NB %r "
                         "(|V|=%d, class docs %s)" % (i, doc, tuple(got), want, len(ref.vocab), ref.n))
                if abs(math.exp(got[0]) + math.exp(got[1]) - 1.0) > 1e-9:
                    viol("C16.normalised", "probabilities-do-not-sum-to-one",
                         "op %d: doc %r: exp sums to %r" % (i, doc,
                                                            math.exp(got[0]) + math.exp(got[1])))
            elif k == "SCORE":
                if op["p"] not in pipes:
                    continue
                pl, ref = pipes[op["p"]], refs[op["p"]]
                # half of the scorings go through a long-lived scorer object that stays
                # attached to its pipeline across REFIT / re-FIT, half through a fresh one
                if op.get("long_lived"):
                    if scorers.get(op["p"], (None, None))[0] is not pl:
                        scorers[op["p"]] = (pl, nbs.NaiveBayesScorer(pl))
                    sc = scorers[op["p"]][1]
                else:
                    sc = nbs.NaiveBayesScorer(pl)
                pp = _mk_pp(lib, op["spans"], op["rules"])
                txt = "x" * op["txt_len"]
                n_eval += 1
                lo = ref.log_odds([str(r) for r in op["rules"]])
                covered = op["spans"][-1][1] - op["spans"][0][0]
                try:
                    got = sc.score(txt, None, pp)
                    j = op["final"]
                    gotf = sc.score_final(txt, None, pp, pp.prod[j])
                except Exception as e:
                    viol("C16.score", "score-raises:" + type(e).__name__,
                         "op %d: %s: %s" % (i, type(e).__name__, e))
                    continue
                want = lo + math.log(covered / op["txt_len"])
                plen = op["spans"][j][1] - op["spans"][j][0]
                wantf = lo + 1000.0 * math.log(plen / op["txt_len"])
                obs.append([i, "SCORE", float(got).hex(), float(gotf).hex()])
                if not _close(got, want):
                    viol("C16.score", "score-composition",
                         "op %d: score=%r, log-odds %r + log(%d/%d) = %r"
                         % (i, got, lo, covered, op["txt_len"], want))
                if not _close(gotf, wantf):
                    viol("C16.score", "score-final-composition",
                         "op %d: score_final=%r, log-odds %r + 1000*log(%d/%d) = %r"
                         % (i, gotf, lo, plen, op["txt_len"], wantf))
            elif k == "SAVE":
                if op["p"] not in pipes:
                    continue
                pl = pipes[op["p"]]
                before = _battery(lib, pl, docs_b, pps_b)
                store.fail_at = op.get("fail_at")
                name = "sim://" + op["name"]
                try:
                    nbs.save_naive_bayes(pl, name)
                    ack = True
                except OSError:
                    ack = False
                finally:
                    store.fail_at = None
                obs.append([i, "SAVE", op["name"], ack])
                if op.get("fail_at") and ack:
                    probes["save_fault_not_reached"] += 1
                if ack:
                    saved[name] = before
                else:
                    saved.pop(name, None)
                    n_eval += 1
                    after = _battery(lib, pl, docs_b, pps_b)
                    probes["model_intact_after_failed_save"] += 1
                    if after != before:
                        viol("C16.persistence", "model-changed-by-failed-save",
                             "op %d: a save that raised ENOSPC changed the in-memory model's "
                             "scores" % i)
            elif k == "MOVE":
                # the operator replaces a model file behind the library's back (deploy by
                # rename): an acknowledged save under a staging name is moved over dst
                src, dst = "sim://" + op["src"], "sim://" + op["dst"]
                if src in saved and src in store.files:
                    store.files[dst] = store.files.pop(src)
                    store.torn.pop(dst, None)
                    saved[dst] = saved.pop(src)
                    probes["file_replaced_by_rename"] += 1
                    obs.append([i, "MOVE", op["src"], op["dst"]])
            elif k == "LOAD":
                name = "sim://" + op["name"]
                if name not in saved:
                    if name in store.torn:
                        probes["load_of_torn_file"] += 1
                        try:
                            nbs.NaiveBayesScorer.from_model_file(name)
                        except Exception:
                            pass
                    continue
                n_eval += 1
                try:
                    sc = nbs.NaiveBayesScorer.from_model_file(name)
                    got = _battery(lib, sc._model, docs_b, pps_b)
                except Exception as e:
                    viol("C16.persistence", "load-raises:" + type(e).__name__,
                         "op %d: loading an acknowledged save raised %s: %s"
                         % (i, type(e).__name__, e))
                    continue
                probes["load_compared"] += 1
                obs.append([i, "LOAD", op["name"], core.short(got)])
                if got != saved[name]:
                    nd = sum(1 for a, b in zip(got, saved[name]) if a != b)
                    viol("C16.persistence", "scores-differ-after-save-load",
                         "op %d: %d of %d battery scores differ (bitwise) after save + load"
                         % (i, nd, len(got)))
                else:
                    keys.append(core.short(["load", got]))
                pipes[op["p"]] = sc._model
                src = op.get("src")
                if src in refs:
                    refs[op["p"]] = refs[src]
                if src in corpora:
                    corpora[op["p"]] = corpora[src]
            elif k == "RESTART":
                if op["p"] not in pipes:
                    continue
                pl = pipes[op["p"]]
                before = _battery(lib, pl, docs_b, pps_b)
                nbs.bz2 = saved_bz2
                try:
                    got, err = _restart(lib, pl, docs_b, pps_b, op["hashseed"])
                finally:
                    nbs.bz2 = store
                faults["restart"] += 1
                n_eval += 1
                obs.append([i, "RESTART", core.short(got)])
                if err:
                    viol("C16.persistence", "restart-load-fails",
                         "op %d: fresh interpreter could not load the saved model: %s" % (i, err))
                elif got != before:
                    nd = sum(1 for a, b in zip(got, before) if a != b)
                    viol("C16.persistence", "scores-differ-after-restart",
                         "op %d: %d of %d battery scores differ (bitwise) in a fresh interpreter "
                         "(PYTHONHASHSEED=%s)" % (i, nd, len(before), op["hashseed"]))
                else:
                    keys.append(core.short(["restart", got]))
            elif k == "CORPUS":
                mod = lib["ctparse"]
                mdl = mod._DEFAULT_SCORER._model
                ref = StoredParamsNB(mdl.transformer.vocabulary,
                                     mdl.estimator.log_likelihood["negative_class"],
                                     mdl.estimator.log_likelihood["positive_class"],
                                     mdl.estimator.class_prior[0], mdl.estimator.class_prior[1])
                for text, ts in op["items"]:
                    if mod._preprocess_string(text) != text or "#" in text or not text:
                        continue
                    try:
                        cands = list(mod.ctparse_gen(text, parse_ts(ts), timeout=0,
                                                     latent_time=False))
                    except Exception:
                        continue
                    for c in cands:
                        if c is None:
                            continue
                        n_eval += 1
                        probes["corpus_candidates"] += 1
                        lo = ref.log_odds([str(p) for p in c.production])
                        ln = c.resolution.mend - c.resolution.mstart
                        want = lo + 1000.0 * math.log(ln / len(text))
                        if not _close(c.score, want):
                            viol("C16.score", "shipped-model-candidate-score",
                                 "text %r: candidate %s has score %r; re-derived from the shipped "
                                 "model's stored parameters: %r" % (text, c.resolution, c.score, want))
                            break
                    obs.append([i, "CORPUS", text, len(cands)])
    finally:
        nbs.bz2 = saved_bz2
    return {"viol": V, "digest": core.digest(obs), "n_eval": n_eval, "keys": keys,
            "faults": faults, "probes": probes, "sim_time": len(case["ops"]),
            "sample": {"ops": [{k: (v if k not in ("X", "y") else "<%d items>" % len(v))
                                for k, v in o.items()} for o in case["ops"][:10]],
                       "first_fit": next(({"X": o["X"][:4], "y": o["y"][:4]} for o in case["ops"]
                                          if o["op"] == "FIT" and "X" in o), None)}}


# --------------------------------------------------------------------------
def _gen_corpus(spec):
    """A corpus too big to be written into the case: generated from its spec. kind "zipf": a few
    frequent tokens alternating with a very large tail alphabet (every tail token occurs), i.e.
    more distinct tokens than fit into 16 bits and many bigrams (frequent, rare)."""
    import random as _random
    r = _random.Random(spec["seed"])
    F = ["f%d" % i for i in range(spec["freq"])]
    T = ["t%05d" % i for i in range(spec["tail"])]
    order = T[:]
    r.shuffle(order)
    X, y, k = [], [], 0
    for _ in range(spec["docs"]):
        doc = []
        for _j in range(spec["per_doc"]):
            doc.append(r.choice(F))
            if k < len(order):
                doc.append(order[k])
                k += 1
            else:
                doc.append(r.choice(T))
        X.append(doc)
        y.append(1 if r.random() < 0.5 else -1)
    y[0], y[1] = 1, -1
    return X, y


def _corpus(rng):
    if rng.random() < 0.2:
        # lopsided: nearly disjoint class vocabularies and many documents, so that long
        # queries have posteriors of 1 - 1e-40 (log-odds far beyond +-35)
        pos = ["p%d" % i for i in range(rng.randint(2, 4))]
        neg = ["n%d" % i for i in range(rng.randint(2, 4))]
        shared = ["s0"]
        X, y = [], []
        for _ in range(rng.randint(12, 30)):
            lab = rng.choice([1, -1])
            pool = (pos if lab == 1 else neg) + (shared if rng.random() < 0.2 else [])
            X.append([rng.choice(pool) for _ in range(rng.randint(3, 8))])
            y.append(lab)
        if 1 not in y:
            y[0] = 1
            X[0] = [pos[0]] * 3
        if -1 not in y:
            y[-1] = -1
            X[-1] = [neg[0]] * 3
        return X, y, rng.choice([pos, neg]) * 3
    a = rng.choice([1, 2, 3, 5, 8, 12])
    alphabet = ["t%d" % i for i in range(a)]
    if rng.random() < 0.15:
        # tokens are arbitrary strings: empty, control / separator characters that splitlines()
        # and friends treat as line ends, quotes, format and escape characters, non-ASCII
        exotic = ["", "\x0b", "a\x0cb", "\x1c", "x\x85y", "\u2028", "\u2029z", "\n", "a\tb", "\r",
                  "ß", "É", "日本", "#", "'", '"', "\\", "%s", "{0}", "NaN", "0", "None", "\x00",
                  "\x1e\x1d", "-1"]
        alphabet = rng.sample(exotic, min(len(exotic), a + 2)) + alphabet[: a // 2]
    elif rng.random() < 0.4:
        alphabet = [str(100 + i) for i in range(a // 2 + 1)] + ["rule%s" % chr(65 + i) for i in range(a // 2 + 1)]
    n = rng.randint(2, 14)
    X, y = [], []
    for _ in range(n):
        ln = rng.choice([0, 1, 1, 2, 3, 3, 4, 5, 8])
        X.append([rng.choice(alphabet) for _ in range(ln)])
        y.append(rng.choice([1, -1]))
    if all(v == 1 for v in y):
        y[rng.randrange(n)] = -1
    if all(v == -1 for v in y):
        y[rng.randrange(n)] = 1
    if not any(X):
        X[rng.randrange(n)] = [rng.choice(alphabet)]
    return X, y, alphabet


def _doc(rng, alphabet):
    # (a few very long, possibly very one-sided documents: |log-odds| in the hundreds)
    ln = rng.choice([0, 1, 2, 3, 4, 6, 9, 14, 14, 60, 150])
    pool = alphabet + ["unseen%d" % i for i in range(2)]
    return [rng.choice(pool if rng.random() < 0.35 else alphabet) for _ in range(ln)]


def _pp(rng, alphabet):
    n = rng.randint(1, 3)
    pos = rng.randint(0, 3)
    spans = []
    for _ in range(n):
        ln = rng.randint(1, 8)
        spans.append([pos, pos + ln])
        pos += ln + rng.randint(0, 2)
    txt_len = pos + rng.randint(0, 6)
    rules = [rng.choice(alphabet) for _ in range(rng.randint(0, 5))]
    return txt_len, spans, rules


def plan(prop, tier, seed):
    base = core.derive_seed(seed, prop, tier)
    quick = tier == "quick"
    cases = []
    for i in range(360 if quick else 8000):
        rng = core.stream(core.derive_seed(base, "run", i), "workload")
        ops = []
        alphabets = {}
        n_p = 0
        names = ["a", "b", "staging"]
        X, y, alpha = _corpus(rng)
        pending_scores = []
        for _ in range(rng.randint(6, 22)):
            r = rng.random()
            if pending_scores and rng.random() < 0.25:
                ops.append(pending_scores.pop())
                continue
            if r < 0.15 or n_p == 0:
                X, y, alphabet = _corpus(rng)
                via = "train" if rng.random() < 0.7 else "pipeline"
                p = n_p if (n_p < 2 or rng.random() < 0.5) else rng.randrange(n_p)
                ops.append({"op": "FIT", "p": p, "X": X, "y": y, "via": via,
                            "alpha": 1.0 if via == "train" else rng.choice([1.0, 1.0, 0.5, 2.0])})
                alphabets[p] = alphabet
                n_p = max(n_p, p + 1)
            elif r < 0.2:
                p = rng.choice(sorted(alphabets))
                X, y, alphabet = _corpus(rng)
                ops.append({"op": "REFIT", "p": p, "X": X, "y": y})
                alphabets[p] = sorted(set(alphabets[p]) | set(alphabet))
            elif r < 0.55:
                p = rng.choice(sorted(alphabets))
                ops.append({"op": "PREDICT", "p": p, "doc": _doc(rng, alphabets[p])})
            elif r < 0.7:
                p = rng.choice(sorted(alphabets))
                tl, spans, rules = _pp(rng, alphabets[p])
                ops.append({"op": "SCORE", "p": p, "txt_len": tl, "spans": spans, "rules": rules,
                            "final": rng.randrange(len(spans)),
                            "long_lived": rng.random() < 0.5})
                if rng.random() < 0.3:
                    # the same trace again later (after whatever happens to the pipeline)
                    pending_scores.append(dict(ops[-1]))
            elif r < 0.82:
                p = rng.choice(sorted(alphabets))
                ops.append({"op": "SAVE", "p": p, "name": rng.choice(names),
                            "fail_at": rng.choice([None, None, 1, 1, 2])})
            elif r < 0.835:
                ops.append({"op": "MOVE", "src": rng.choice(names), "dst": rng.choice(names)})
            elif r < 0.85 and len(alphabets) >= 1:
                # a deployment: the live file was loaded before, a newer model is written under
                # a staging name and renamed over it, then loaded again
                live = rng.choice(["a", "b"])
                p_old = rng.choice(sorted(alphabets))
                X, y, alphabet = _corpus(rng)
                p_new = n_p
                n_p += 1
                alphabets[p_new] = alphabet
                ops += [{"op": "SAVE", "p": p_old, "name": live, "fail_at": None},
                        {"op": "LOAD", "name": live, "p": n_p, "src": None},
                        {"op": "FIT", "p": p_new, "X": X, "y": y, "via": "train", "alpha": 1.0},
                        {"op": "SAVE", "p": p_new, "name": "staging", "fail_at": None},
                        {"op": "MOVE", "src": "staging", "dst": live},
                        {"op": "LOAD", "name": live, "p": n_p + 1, "src": None}]
                n_p += 2
            elif r < 0.94:
                src = rng.choice(sorted(alphabets))
                p = n_p
                ops.append({"op": "LOAD", "name": rng.choice(names), "p": p, "src": None})
            else:
                p = rng.choice(sorted(alphabets))
                if sum(1 for o in ops if o["op"] == "RESTART") < (1 if quick else 2):
                    ops.append({"op": "RESTART", "p": p, "hashseed": 1 + rng.randrange(4000)})
        # LOAD ops need to know whose reference model the loaded pipeline inherits: resolve
        # statically (name -> pipeline saved last under that name)
        last = {}
        for o in ops:
            if o["op"] == "SAVE":
                last[o["name"]] = o["p"]      # optimistic; executor ignores unacknowledged saves
            elif o["op"] == "MOVE":
                if o["src"] in last and o["src"] != o["dst"]:
                    last[o["dst"]] = last.pop(o["src"])
            elif o["op"] == "LOAD":
                o["src"] = last.get(o["name"])
                if o["src"] is not None:
                    alphabets.setdefault(o["p"], alphabets.get(o["src"], alpha))
        any_alpha = sorted({t for a in alphabets.values() for t in a})
        bd = [_doc(rng, any_alpha) for _ in range(5)] + [[]]
        bp = [_pp(rng, any_alpha) for _ in range(3)]
        cases.append({"ops": ops, "battery_docs": bd, "battery_pps": [list(x) for x in bp]})
    # more distinct tokens than fit into 16 bits (ids, offsets, packed keys ...)
    for i in range(2 if quick else 16):
        rng = core.stream(core.derive_seed(base, "huge", i), "workload")
        spec = {"kind": "zipf", "seed": rng.randrange(1 << 30), "freq": rng.choice([16, 32, 48, 64]),
                "tail": rng.choice([66000, 70000, 75000]) if i % 2 == 0 else rng.choice([300, 5000, 40000]),
                "docs": 1500, "per_doc": rng.choice([50, 70])}
        ops = [{"op": "FIT", "p": 0, "gen": spec, "via": rng.choice(["train", "pipeline"]),
                "alpha": 1.0}]
        for _ in range(40):
            ops.append({"op": "PREDICT", "p": 0,
                        "doc_slice": [rng.randrange(1500), rng.randrange(0, 60),
                                      rng.choice([2, 3, 10, 40, 100])]})
        ops += [{"op": "SAVE", "p": 0, "name": "a", "fail_at": None},
                {"op": "LOAD", "name": "a", "p": 1, "src": 0}]
        for _ in range(10):
            ops.append({"op": "PREDICT", "p": 1,
                        "doc_slice": [rng.randrange(1500), rng.randrange(0, 60),
                                      rng.choice([3, 10, 40])]})
        cases.append({"ops": ops, "battery_docs": [["f0", "t00001", "f1"], []],
                      "battery_pps": []})
    # shipped model: candidate scores re-derived from its stored parameters
    rng = core.stream(base, "corpus")
    for i in range(8 if quick else 120):
        items = []
        for _ in range(12):
            t = workload.structured_text(rng) if rng.random() < 0.7 else rng.choice(
                [x for x in workload.FIXED_TEXTS if x and len(x.split()) <= 7])
            items.append([" ".join(t.lower().split()),
                          workload.ref_time(rng, 2016, 2043).strftime("%Y-%m-%dT%H:%M:%S")])
        cases.append({"ops": [{"op": "CORPUS", "items": items}], "battery_docs": [],
                      "battery_pps": []})
    return cases


def shrink_moves(case):
    ops = case["ops"]
    if len(ops) > 1:
        for cand in core.ddmin_list(ops):
            if cand:
                yield dict(case, ops=cand)
    for i, o in enumerate(ops):
        if o["op"] == "FIT" and len(o["X"]) > 2:
            for j in range(len(o["X"])):
                X = o["X"][:j] + o["X"][j + 1:]
                y = o["y"][:j] + o["y"][j + 1:]
                if 1 in y and -1 in y and any(X):
                    yield dict(case, ops=ops[:i] + [dict(o, X=X, y=y)] + ops[i + 1:])
        if o["op"] == "PREDICT" and len(o["doc"]) > 1:
            for cand in core.ddmin_list(o["doc"]):
                yield dict(case, ops=ops[:i] + [dict(o, doc=cand)] + ops[i + 1:])
        if o["op"] == "CORPUS" and len(o["items"]) > 1:
            for cand in core.ddmin_list(o["items"]):
                if cand:
                    yield dict(case, ops=ops[:i] + [dict(o, items=cand)] + ops[i + 1:])
