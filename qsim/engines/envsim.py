"""env-sim (C01): totality under simulated deployments.

One run = one deployment drawn from the configuration / fault product the property
quantifies over - model store {present, absent (documented fallback)}, scorer kind
{shipped, constant, seeded random}, options, debug, logging configuration, reference time
{explicit incl. boundary instants, omitted under a virtual wall clock} - fed with a swarm
text workload through both entry points; the stream is consumed step by step.
"""
import importlib
import io
import json
import logging
import os
import random
import shutil
import subprocess
import sys
import tempfile

from qsim import core, workload
from qsim.clocks import VirtualWall, parse_ts, fmt_ts

PROPERTIES = ["C01"]
SIM_TIME_UNIT = "scorer calls (search steps) across all parses"
HANG_S = 600
COMPONENTS = {
    "real": ["all of /repo/ctparse incl. loader.load_default_scorer (re-executed for the "
             "model-absent fault), shipped model, DummyScorer, RandomScorer(seeded)",
             "regex", "dateutil", "logging (real handlers, null stream)",
             "fresh interpreter on a pruned package copy (model file really absent)"],
    "stub": ["model store: DEFAULT_MODEL_FILE pointed at a missing path + reload (in-process)",
             "datetime.now() -> VirtualWall for calls without reference time",
             "step cap: a counting Scorer wrapper (deterministic budget instead of a real timeout)"],
}
RULE = {"*": "one evaluation = one text pushed through ctparse() and ctparse_gen() under the run's "
             "deployment; distinct = distinct (text, deployment) pairs whose parse produced at "
             "least one pattern match or exercised the no-match path with labels/blank text "
             "(non-trivial: not a duplicate, hashed)"}
ASSUMPTIONS = {"*": [
    "unicode strings of bounded length (<= 8 tokens, <= 80 chars) so that the un-timed search "
    "stays small; no real timeout is ever active",
    "termination is judged only for depth-limited runs (max_stack_depth 1 or 10) under a "
    "deterministic scorer (shipped, constant): there every production enters the stack at most "
    "once, the largest legitimate search observed is ~5 000 scorer calls, and exceeding 400 000 "
    "is reported as non-termination; the un-truncated search (max_stack_depth=0) and any search "
    "under a random scorer are legitimately huge for some short texts, get a cap of 15 000 calls "
    "and are skipped and counted when over it - termination is then not decided for them",
    "the input dimension dominates this property; the simulator adds the configuration/fault "
    "product and the clock seams",
]}
EXPECTED_FAULTS = {"C01": ["model_absent", "model_absent_fresh_process", "random_scorer",
                           "omitted_ts", "debug_logging", "stack_depth_limit"]}
DETERMINISM_SAMPLE = {"quick": 3, "thorough": 6}
EXHAUSTIVE = {}
MIN_CASES = {'quick': 450, 'thorough': 8000}
STEP_CAP = 400_000
STEP_CAP_UNLIMITED = 15_000


import re as _re
_IMPOSSIBLE = _re.compile(r"31\.(0?[469]|11)(\.|\b)|3[01]\.0?2|29\.0?2\.(2019|2100)|feb 30|31 june|30 feb")
_STACKED = _re.compile(r"((very |sehr )?(early|late|früh\w*|spät\w*)\s+){2,}")


class Budget(Exception):
    pass


class Capped:
    def __init__(self, inner, cap):
        self.inner, self.cap, self.n = inner, cap, 0

    def score(self, *a):
        self.n += 1
        if self.n > self.cap:
            raise Budget()
        return self.inner.score(*a)

    def score_final(self, *a):
        self.n += 1
        if self.n > self.cap:
            raise Budget()
        return self.inner.score_final(*a)


def _deploy(lib, env):
    """bring the process into the run's deployment; returns (scorer factory, cleanup info)"""
    absent = env["model"] == "absent"
    if absent:
        lib["loader"].DEFAULT_MODEL_FILE = os.path.join(
            os.path.dirname(lib["loader"].__file__), "models", "no-such-model.pbz")
        importlib.reload(sys.modules["ctparse.ctparse"])
    mod = sys.modules["ctparse.ctparse"]
    lg = logging.getLogger("ctparse")
    if env["logging"] == "debug":
        h = logging.StreamHandler(io.StringIO())
        h.setLevel(logging.DEBUG)
        lg.addHandler(h)
        lg.setLevel(logging.DEBUG)
    return mod


def _scorer(lib, mod, env, cap):
    k = env["scorer"]
    if k == "default":
        return None, None
    if k == "shipped":
        c = Capped(mod._DEFAULT_SCORER, cap)
    elif k == "constant":
        c = Capped(lib["scorer"].DummyScorer(), cap)
    else:
        c = Capped(lib["scorer"].RandomScorer(random.Random(k[1])), cap)
    return c, c


def _check_result(viol, where, r):
    if r is None or not hasattr(r, "resolution"):
        viol("C01.returns-object", "not-a-result-object:" + type(r).__name__,
             "%s: returned %r instead of a result object" % (where, r))
        return None
    out = {}
    for fn, name in ((str, "str"), (repr, "repr")):
        try:
            s = fn(r)
            if not isinstance(s, str):
                viol("C01.renders", name + "-not-str", "%s: %s() returned %r" % (where, name, s))
            out[name] = s
        except Exception as e:
            viol("C01.renders", "%s-raises:%s:%s" % (name, type(e).__name__,
                                                     "empty" if r.resolution is None else "match"),
                 "%s: %s(result) raised %s: %s" % (where, name, type(e).__name__, e))
    if not isinstance(r.subject, str):
        viol("C01.subject-labels", "subject-not-str:" + type(r.subject).__name__,
             "%s: subject is %r" % (where, r.subject))
    if not isinstance(r.labels, list) or not all(isinstance(x, str) for x in r.labels):
        viol("C01.subject-labels", "labels-not-list-of-str:" + type(r.labels).__name__,
             "%s: labels is %r" % (where, r.labels))
    return out


def _site(e):
    """innermost library frame of an exception (the call site identifies the defect)"""
    import traceback
    tb = traceback.extract_tb(e.__traceback__)
    for fr in reversed(tb):
        if os.sep + "ctparse" + os.sep in fr.filename:
            return "%s:%s" % (os.path.basename(fr.filename), fr.name)
    return "?"


def execute(case):
    if case.get("fresh_absent"):
        return _execute_fresh_absent(case)
    lib = core.use_repo()
    env = case["env"]
    V, keys, obs = [], [], []
    faults = {k: 0 for k in EXPECTED_FAULTS["C01"]}
    probes = {"long_text": 0, "no_match_path": 0, "empty_or_blank_text": 0, "label_only_text": 0,
              "step_cap_skipped": 0, "debug_iterator_drained": 0, "candidates_streamed": 0,
              "impossible_date_tokens": 0, "stacked_modifiers": 0, "fallback_constant_scorer": 0}
    n_eval = 0
    sim_steps = 0

    def viol(oracle, cls, detail):
        V.append({"oracle": oracle, "class": cls, "detail": detail})

    mod = _deploy(lib, env)
    if env["model"] == "absent":
        faults["model_absent"] += 1
        if type(mod._DEFAULT_SCORER).__name__ != "DummyScorer":
            viol("C01.model-absent-fallback", "default-scorer-not-constant",
                 "model file absent but the default scorer is %s"
                 % type(mod._DEFAULT_SCORER).__name__)
        else:
            probes["fallback_constant_scorer"] += 1
    if env["logging"] == "debug":
        faults["debug_logging"] += 1
    wall = VirtualWall(parse_ts(case["wall_start"]), 1000)
    saved_dt = mod.datetime
    mod.datetime = wall.datetime_class()
    try:
        for i, item in enumerate(case["texts"]):
            text = item["text"]
            ts = parse_ts(item["ts"]) if item.get("ts") else None
            if ts is None:
                faults["omitted_ts"] += 1
                wall.advance(seconds=item.get("advance_s", 1))
            depth = item["max_stack_depth"]
            if depth:
                faults["stack_depth_limit"] += 1
            # the un-truncated search (depth 0) is legitimately huge for some short texts
            # ('10/31/2018 10/31/2018'): it gets a small cap and is skipped when over it;
            # only depth-limited runs over the large cap count as non-termination
            # ... and under a random scorer even a depth-limited search re-adds productions
            # whenever the dice give them a better score, so its length has no useful bound
            # either ('05/10 05/10 13 05/10 5. mai 12', RandomScorer(2822): > 120 000 calls)
            randomised = isinstance(env["scorer"], list)
            judge_termination = bool(depth) and not randomised
            cap = STEP_CAP if judge_termination else STEP_CAP_UNLIMITED
            kw = dict(ts=ts, timeout=0, relative_match_len=item["relative_match_len"],
                      max_stack_depth=depth, latent_time=item["latent_time"])
            where = "text=%r ts=%s opts=%s env=%s" % (
                text, item.get("ts"), {k: v for k, v in kw.items() if k not in ("ts",)},
                json.dumps(env))
            n_eval += 1
            if not text.strip():
                probes["empty_or_blank_text"] += 1
            if len(text) > 250:
                probes["long_text"] += 1
            low = text.lower()
            if _IMPOSSIBLE.search(low):
                probes["impossible_date_tokens"] += 1
            if _STACKED.search(low):
                probes["stacked_modifiers"] += 1
            if text.strip().startswith("#") and len(text.split()) == 1:
                probes["label_only_text"] += 1
            if isinstance(env["scorer"], list):
                faults["random_scorer"] += 1
            # ---- streaming entry point, consumed step by step
            sc, cnt = _scorer(lib, mod, env, cap)
            if sc is None and depth == 0:
                sc = cnt = Capped(mod._DEFAULT_SCORER, cap)
            if sc is not None:
                kw["scorer"] = sc
            n_c = 0
            try:
                g = mod.ctparse_gen(text, **kw)
                for c in g:
                    n_c += 1
                    if c is not None:
                        _check_result(viol, where + " candidate#%d" % n_c, c)
                probes["candidates_streamed"] += n_c
                obs.append([i, "gen", n_c])
            except Budget:
                if judge_termination:
                    viol("C01.terminates", "step-cap-exceeded",
                         "%s: candidate stream not exhausted after %d scorer calls" % (where, cap))
                else:
                    probes["step_cap_skipped"] += 1
                obs.append([i, "gen", "cap"])
                continue
            except Exception as e:
                viol("C01.raises", "gen:%s@%s" % (type(e).__name__, _site(e)),
                     "%s: ctparse_gen raised %s: %s" % (where, type(e).__name__, e))
                obs.append([i, "gen", type(e).__name__])
            if cnt is not None:
                sim_steps += cnt.n
            if n_c == 0:
                probes["no_match_path"] += 1
            keys.append(core.short([text, item.get("ts") is None, kw["max_stack_depth"],
                                    kw["latent_time"], kw["relative_match_len"], env]))
            # ---- single-result entry point (fresh scorer of the same kind)
            sc, cnt = _scorer(lib, mod, env, cap)
            if sc is None and depth == 0:
                sc = Capped(mod._DEFAULT_SCORER, cap)
            if sc is not None:
                kw["scorer"] = sc
            else:
                kw.pop("scorer", None)
            try:
                r = mod.ctparse(text, debug=item["debug"], **kw)
                if item["debug"]:
                    got = list(r)
                    probes["debug_iterator_drained"] += 1
                    for c in got:
                        if c is not None:
                            _check_result(viol, where + " debug-iterator", c)
                    obs.append([i, "debug", len(got)])
                else:
                    rr = _check_result(viol, where, r)
                    obs.append([i, "call", rr])
                    if r is not None and hasattr(r, "resolution"):
                        if n_c == 0 and r.resolution is not None and not isinstance(
                                env["scorer"], list):
                            viol("C01.returns-object", "resolution-without-candidates",
                                 "%s: stream is empty but the result has resolution %r"
                                 % (where, r.resolution))
            except Budget:
                probes["step_cap_skipped"] += 1
            except Exception as e:
                viol("C01.raises", "call:%s@%s" % (type(e).__name__, _site(e)),
                     "%s: ctparse raised %s: %s" % (where, type(e).__name__, e))
                obs.append([i, "call", type(e).__name__])
    finally:
        mod.datetime = saved_dt
    return {"viol": V, "digest": core.digest(obs), "n_eval": n_eval, "keys": keys,
            "faults": faults, "probes": probes, "sim_time": sim_steps,
            "sample": {"env": env, "texts": [t["text"] for t in case["texts"][:8]],
                       "first_item": case["texts"][0] if case["texts"] else None}}


# --------------------------------------------------------------------------
# model file really absent: a fresh interpreter on a pruned copy of the package
# --------------------------------------------------------------------------
def _execute_fresh_absent(case):
    src = os.path.join(core.REPO, "ctparse")
    tmp = tempfile.mkdtemp(prefix="qsim-absent-", dir="/dev/shm" if os.path.isdir("/dev/shm") else None)
    try:
        shutil.copytree(src, os.path.join(tmp, "ctparse"),
                        ignore=shutil.ignore_patterns("*.pbz", "__pycache__"))
        sub = dict(case)
        sub.pop("fresh_absent")
        sub["env"] = dict(case["env"], model="present-in-copy")
        env = dict(os.environ)
        env["VERIF_REPO"] = tmp
        env["QSIM_REEXEC"] = "1"
        env["PYTHONHASHSEED"] = str(case.get("hashseed", 7))
        env["PYTHONDONTWRITEBYTECODE"] = "1"
        code = ("import sys,json; sys.path.insert(0,%r); from qsim import core; "
                "from qsim.engines import envsim; core.use_repo(); "
                "c=json.load(sys.stdin); r=envsim.execute(c); "
                "import ctparse.ctparse as _f; m=sys.modules['ctparse.ctparse']; "
                "r['default_scorer']=type(m._DEFAULT_SCORER).__name__; "
                "r['file']=m.__file__; print(json.dumps(r, default=repr))" % core.VERIF_ROOT)
        p = subprocess.run([core.PYTHON, "-c", code], input=json.dumps(sub), env=env,
                           stdout=subprocess.PIPE, stderr=subprocess.PIPE, text=True, timeout=500)
        if p.returncode != 0:
            # an import that fails because the model file is missing IS the fault's violation
            err = p.stderr.strip().splitlines()[-1] if p.stderr.strip() else "exit %d" % p.returncode
            return {"viol": [{"oracle": "C01.model-absent-fallback",
                              "class": "import-fails:" + err.split(":")[0],
                              "detail": "fresh interpreter on a package copy without "
                                        "models/model.pbz: %s" % p.stderr[-800:]}],
                    "digest": core.digest(err), "n_eval": 1, "keys": [],
                    "faults": {"model_absent_fresh_process": 1}}
        r = json.loads(p.stdout.strip().splitlines()[-1])
        if not r["file"].startswith(tmp):
            raise core.HarnessError("child imported %s, expected the pruned copy" % r["file"])
        if r["default_scorer"] != "DummyScorer":
            r["viol"].append({"oracle": "C01.model-absent-fallback",
                              "class": "default-scorer-not-constant",
                              "detail": "package copy without model file: default scorer is %s"
                                        % r["default_scorer"]})
        r["faults"]["model_absent_fresh_process"] = 1
        r["faults"]["model_absent"] = r["faults"].get("model_absent", 0) + 1
        r["probes"]["fallback_constant_scorer"] = r["probes"].get("fallback_constant_scorer", 0) + 1
        for k in ("default_scorer", "file"):
            r.pop(k, None)
        return r
    finally:
        shutil.rmtree(tmp, ignore_errors=True)


# --------------------------------------------------------------------------
def _noise_text(rng):
    n = rng.randint(0, 6)
    parts = []
    for _ in range(n):
        r = rng.random()
        if r < 0.5:
            parts.append(rng.choice(workload.NOISE))
        elif r < 0.8:
            parts.append(rng.choice(rng.choice(workload.GROUPS)))
        else:
            parts.append(chr(rng.choice([rng.randint(0x20, 0x7e), rng.randint(0xa0, 0x24f),
                                         rng.randint(0x2000, 0x206f), rng.randint(0x3000, 0x30ff),
                                         rng.randint(0x1f600, 0x1f64f)])))
    return rng.choice(["", " ", ""]).join(parts) if rng.random() < 0.3 else " ".join(parts)


def _text(rng):
    r = rng.random()
    if r < 0.28:
        return workload.gen_text(rng, 6)
    if r < 0.5:
        return workload.structured_text(rng)
    if r < 0.58:
        # impossible calendar dates glued to ranges / durations
        d = rng.choice(["31.04.2020", "30.02.", "31.6.", "29.02.2019", "31.11.2021", "feb 30",
                        "31 june", "30 feb 2021", "31.09.", "29.2.2100", "31.4"])
        tail = rng.choice(["9-5", "8 to 10", "for 2 days", "for 3 hours", "3 days", "- 3.5.",
                           "bis 5.", "morning", "8pm", "2 nights", "to 1.5.2020", "für 1 nacht",
                           "from 8 to 9"])
        return rng.choice(["%s %s" % (d, tail), "%s %s" % (tail, d), d])
    if r < 0.62:
        # clock ranges with arbitrary ends (equal hours, 12:xx, 0:xx, 23:xx, reversed minutes)
        def ck():
            h = rng.choice([0, 1, 9, 11, 12, 12, 13, 23, rng.randint(0, 23)])
            m = rng.choice([0, 10, 15, 30, 45, 50, 59])
            return rng.choice(["%d:%02d", "%d.%02d", "%02d:%02d", "%dh%02d"]) % (h, m) \
                if rng.random() < 0.8 else str(h)
        j = rng.choice([" - ", "-", " to ", " bis ", " until ", " und "])
        pre = rng.choice(["", "", "from ", "von ", "between ", "tomorrow ", "12.12.2020 "])
        return pre + ck() + j + ck()
    if r < 0.625:
        # a full date followed by a range of parts of day, in both orders
        d = rng.choice(["tomorrow", "5.5.2020", "heute", "friday", "31.12.", "12.12.2020"])
        a, b = rng.choice(workload.PODS), rng.choice(workload.PODS)
        return "%s %s %s %s" % (d, a, rng.choice(["-", "until", "bis", "to"]), b)
    if r < 0.63:
        # a long chain of date-times (deep rule traces under the shipped model)
        k = rng.randint(4, 7)
        parts = ["%s %d.3.2020 %d:00" % (rng.choice(["mon", "tue", "wed", "thu", "fri", "sat"]),
                                         2 + i, 8 + i) for i in range(k)]
        return " - ".join(parts)
    if r < 0.64:
        # a duration next to a date interval (the "3 days 15-18 Nov" consistency rules), with
        # ordinary and absurd amounts
        d1, d2 = rng.choice(["15.11.2020", "15.", "1.1.2020", "28.02.", "nov 15", "31.12.2019"]), \
            rng.choice(["18.11.2020", "18.", "3.1.2020", "2.3.", "nov 18", "2.1.2020"])
        n = rng.choice([1, 2, 3, 30, 400, 4000000, 99999999999])
        u = rng.choice(["days", "nights", "tage", "weeks", "months", "nächte"])
        iv = "%s %s %s" % (d1, rng.choice(["-", "bis", "to"]), d2)
        return rng.choice(["%d %s %s" % (n, u, iv), "%s %d %s" % (iv, n, u),
                           "%s für %d %s" % (iv, n, u), "%s for %d %s" % (iv, n, u)])
    if r < 0.66:
        # stacked part-of-day modifiers
        k = rng.randint(2, 5)
        return " ".join(rng.choice(workload.MODS) for _ in range(k)) + " " + \
            rng.choice(workload.PODS + ["", "morning"])
    if r < 0.74:
        t = rng.choice(["", " ", "  ", "\t", "#fun", "#fun #work", "#", "# ", "#1", "##a",
                        "#a#b", "-", "--", ",", "()", "#-", "#_", " #x ", "a#b", "#über"]
                       + workload.LABELS)
        if rng.random() < 0.3:
            # ... next to words / an expression
            t = rng.choice(["%s lunch", "call bob %s", "%s tomorrow 5pm", "friday %s 8-9",
                            "%s %s"]).replace("%s", t)
        return t
    if r < 0.86:
        return _noise_text(rng)
    t = rng.choice(workload.FIXED_TEXTS)
    if rng.random() < 0.5 and t:
        # mutate a corpus-like line
        toks = t.split()
        op = rng.random()
        if toks and op < 0.3:
            toks.pop(rng.randrange(len(toks)))
        elif toks and op < 0.6:
            toks.insert(rng.randrange(len(toks) + 1), rng.choice(rng.choice(workload.GROUPS)))
        elif toks:
            i = rng.randrange(len(toks))
            toks[i] = toks[i][::-1] if rng.random() < 0.3 else toks[i].upper()
        t = " ".join(toks[:8])
    return t


LONG_WORDS = ["lorem", "ipsum", "dolor", "zahnarzt", "call", "bob", "xyzzy", "besprechung",
              "review", "straße", "über", "日本", "kaffee", "notes", "re:", "fwd", "agenda",
              "x", "—", "item", "(draft)", "v2", "und", "the", "with"]


def _env(rng):
    r = rng.random()
    if r < 0.3:
        sc = "default"
    elif r < 0.5:
        sc = "shipped"
    elif r < 0.7:
        sc = "constant"
    else:
        sc = ["random", rng.randrange(10000)]
    return {"model": "absent" if rng.random() < 0.3 else "present", "scorer": sc,
            "logging": "debug" if rng.random() < 0.25 else "none"}


def plan(prop, tier, seed):
    base = core.derive_seed(seed, prop, tier)
    quick = tier == "quick"
    cases = []
    n_runs = 500 if quick else 9000
    for i in range(n_runs):
        rng = core.stream(core.derive_seed(base, "run", i), "workload")
        env = _env(rng)
        items = []
        for _ in range(rng.randint(6, 14)):
            t = _text(rng)
            missed_ts = None
            sp = rng.random()
            if sp < 0.06:
                # a partial date asked right after its day has passed
                t, missed_ts = workload.just_missed(rng)
            elif sp < 0.16:
                # the same text with letters a case-insensitive Unicode match folds together
                t = workload.confuse(rng, t)
            long_ = False
            if sp >= 0.16 and sp < 0.185:
                # a long note with one or two expressions somewhere in it ("bounded length" is
                # not "short"): 40 - 700 words no pattern matches
                def filler(k):
                    return " ".join(rng.choice(LONG_WORDS) for _ in range(k))
                n_w = rng.choice([40, 80, 150, 300, 700])
                e1 = rng.choice([workload.structured_text(rng), "tomorrow 5pm", "12.12.2020",
                                 "friday 8-9"])
                t = "%s %s %s" % (filler(rng.randint(0, n_w)), e1, filler(rng.randint(0, n_w)))
                if rng.random() < 0.4:
                    t += " " + workload.structured_text(rng) + " " + filler(rng.randint(0, 30))
                if rng.random() < 0.3:
                    t += " #notes"
                t = t.strip()
                long_ = True
            chain = t.count(" - ") >= 3 and ".3.2020" in t
            if not chain and not long_:
                t = t[:80]
                if len(t.split()) > 8:
                    t = " ".join(t.split()[:8])
            it = {"text": t,
                  "latent_time": rng.random() < 0.6,
                  # the un-truncated search (depth 0) only for short texts: beyond ~4 tokens
                  # it is legitimately huge and nothing but a real timeout would bound it
                  "max_stack_depth": rng.choice([0, 1, 10, 10]) if len(t.split()) <= 4
                  else (10 if chain else rng.choice([1, 10, 10])),
                  "relative_match_len": rng.choice([1.0, 1.0, 0.9, 0.5, 0.1, 0.01, 1e-9, 0.999999, 0.3333333]),
                  "debug": rng.random() < 0.15}
            if missed_ts is not None:
                it["ts"] = fmt_ts(missed_ts)
            elif rng.random() < 0.7:
                it["ts"] = fmt_ts(workload.ref_time(rng, 1970, 2100))
            else:
                it["advance_s"] = rng.choice([0, 1, 59, 3600, 86400, 86400 * 365])
            items.append(it)
        cases.append({"env": env, "texts": items,
                      "wall_start": fmt_ts(workload.ref_time(rng, 1971, 2098))})
    # fresh interpreters on a package copy whose model file is really absent
    for i in range(6 if quick else 60):
        rng = core.stream(core.derive_seed(base, "fresh", i), "workload")
        c = dict(cases[rng.randrange(len(cases))])
        c["env"] = dict(c["env"], model="present", scorer=rng.choice(["default", "constant"]))
        c["fresh_absent"] = True
        c["hashseed"] = 1 + rng.randrange(1000)
        cases.append(c)
    return cases


def shrink_moves(case):
    items = case["texts"]
    if len(items) > 1:
        for cand in core.ddmin_list(items):
            if cand:
                yield dict(case, texts=cand)
    if len(items) == 1:
        it = items[0]
        toks = it["text"].split(" ")
        if len(toks) > 1:
            for cand in core.ddmin_list(toks):
                yield dict(case, texts=[dict(it, text=" ".join(cand))])
        base = dict(it, latent_time=True, max_stack_depth=10, relative_match_len=1.0, debug=False)
        if base != it:
            yield dict(case, texts=[base])
        if it.get("ts") != "2020-02-03T10:20:30":
            yield dict(case, texts=[dict(it, ts="2020-02-03T10:20:30")])
    e = case["env"]
    simple = {"model": "present", "scorer": "default", "logging": "none"}
    if e != simple and not case.get("fresh_absent"):
        yield dict(case, env=simple)
        for k in simple:
            if e[k] != simple[k]:
                yield dict(case, env=dict(e, **{k: simple[k]}))
