"""deadline-sim (C13): every expiry point of a parse under a virtual monotonic clock.

A case is one input plus an explicit list of expiry points / stall points.
The simulator owns ``ctparse.timers.perf_counter``; counting wrappers around
``PartialParse.from_regex_matches`` (= analysing one candidate sequence),
``PartialParse.apply_rule`` (= one rule application; id(self) = the partial
parse being expanded) and a counting ``Scorer`` put every unit of work and
every clock read into one totally ordered event log.
"""
from qsim import core, workload
from qsim.clocks import VirtualMonotonic, parse_ts, fmt_ts

PROPERTIES = ["C13"]
SIM_TIME_UNIT = "virtual clock reads (ticks)"
HANG_S = 900
COMPONENTS = {
    "real": ["ctparse.ctparse (ctparse, ctparse_gen, _ctparse, _match_regex, _regex_stack)",
             "ctparse.partial_parse", "ctparse.rule + ctparse.time.rules (all productions)",
             "ctparse.timers (timeout closure, timeit)", "ctparse.nb_scorer + shipped model",
             "ctparse.time.postprocess_latent", "regex", "dateutil"],
    "stub": ["time.perf_counter -> VirtualMonotonic (tick / jitter / stall)",
             "Scorer -> counting delegate around the shipped model or DummyScorer; in 'default' runs "
             "the library's own scorer object, counted per model row at CTParsePipeline."
             "predict_log_proba"],
}
RULE = {"*": "one evaluation = one parse executed with the deadline placed strictly between "
             "two consecutive reads of the virtual monotonic clock (or a stall injected at a "
             "read); distinct = distinct (input, expiry index, clock mode) whose deadline fired "
             "before the run's natural end (non-trivial: the run was really cut short or "
             "stopped at a check), counted by hashing"}
ASSUMPTIONS = {"*": [
    "perf_counter is monotonic (no backwards steps are injected)",
    "time only passes at clock reads (discrete-event time): work between two reads is "
    "instantaneous, which is exactly what makes 'work between two checks' countable",
    "'analysing a candidate sequence' is observed as a call of PartialParse.from_regex_matches "
    "(or of PartialParse._filter_rules outside of it); 'expanding a partial parse' as the calls "
    "of PartialParse.apply_rule on one object",
]}
EXPECTED_FAULTS = {"C13": ["deadline", "stall", "consumer_stall"]}
DETERMINISM_SAMPLE = {"quick": 4, "thorough": 12}
EXHAUSTIVE = {}
MIN_CASES = {'quick': 60, 'thorough': 250}
BIG = 1e30


class StepCap(Exception):
    """the run is beyond the deterministic step cap (input too big for this check)"""


STEP_CAP = 40000


class Counting:
    """Scorer handed in through ``scorer=``; delegates to the real one."""

    def __init__(self, log, inner, cap=None):
        self.log = log
        self.inner = inner
        self.n = 0
        self.cap = cap or STEP_CAP

    def _tick(self):
        self.n += 1
        if self.n > self.cap:
            raise StepCap()

    def score(self, txt, ts, pp):
        self._tick()
        self.log.append(("score",))
        return self.inner.score(txt, ts, pp)

    def score_final(self, txt, ts, pp, prod):
        self._tick()
        self.log.append(("score_final",))
        return self.inner.score_final(txt, ts, pp, prod)


def _mk_scorer(lib, kind, log, cap=None):
    if kind in ("default", "default_none"):
        # the library's own scorer object, not wrapped (or not passed at all): its work is
        # counted one level down, per document row handed to the model (see Instrument)
        return lib["ctparse"]._DEFAULT_SCORER if kind == "default" else None
    if kind == "dummy":
        inner = lib["scorer"].DummyScorer()
    else:
        inner = lib["ctparse"]._DEFAULT_SCORER
    sc = Counting(log, inner, cap)
    lib["scorer"].Scorer.register(Counting)
    return sc


class Instrument:
    """Installs the clock and the counting wrappers; restores on exit."""

    def __init__(self, lib, log, clock, count_model_rows=False, sentinel_cap=None):
        self.lib = lib
        self.log = log
        self.clock = clock
        self.count_model_rows = count_model_rows
        self.sentinel_cap = sentinel_cap

    def __enter__(self):
        lib, log = self.lib, self.log
        PP = lib["partial_parse"].PartialParse
        self.saved = (lib["timers"].perf_counter, PP.__dict__["from_regex_matches"],
                      PP.__dict__["apply_rule"], PP.__dict__["_filter_rules"])
        lib["timers"].perf_counter = self.clock
        orig_from = self.saved[1].__func__
        orig_apply = self.saved[2]
        orig_filter = self.saved[3]
        state = {"in_from": 0}

        # (signature-agnostic: a refactoring may add parameters to these methods)
        def from_regex_matches(cls, regex_matches, *a, **k):
            log.append(("analysis", len(regex_matches)))
            state["in_from"] += 1
            try:
                return orig_from(cls, regex_matches, *a, **k)
            finally:
                state["in_from"] -= 1

        def apply_rule(self_, *a, **k):
            log.append(("apply", id(self_)))
            return orig_apply(self_, *a, **k)

        def _filter_rules(self_, *a, **k):
            if not state["in_from"]:
                log.append(("analysis", len(self_.prod)))
            return orig_filter(self_, *a, **k)

        PP.from_regex_matches = classmethod(from_regex_matches)
        PP.apply_rule = apply_rule
        PP._filter_rules = _filter_rules
        # step cap on the deadline sentinel itself (only for runs that ask for it: long inputs
        # whose sequence enumeration calls neither the scorer nor anything else of ours): a
        # sentinel that is called far more often than the clock could have been read before the
        # deadline belongs to a run that is not going to stop
        self.saved_factory = None
        mod = lib["ctparse"]
        if self.sentinel_cap and hasattr(mod, "timeout_"):
            self.saved_factory = mod.timeout_
            orig_factory, capn = mod.timeout_, self.sentinel_cap

            def factory(*a, **k):
                inner = orig_factory(*a, **k)
                n = {"n": 0}

                def sentinel():
                    n["n"] += 1
                    if n["n"] > capn:
                        raise StepCap()
                    return inner()
                return sentinel
            mod.timeout_ = factory
        self.saved_predict = None
        if self.count_model_rows:
            # one scoring = one document row the naive-Bayes model is asked about, whoever
            # asks (score, score_final, or anything a refactoring puts next to them)
            import sys as _sys
            Pipe = lib["pipeline"].CTParsePipeline
            self.saved_predict = Pipe.__dict__["predict_log_proba"]
            orig_predict = self.saved_predict
            n = {"n": 0}

            def predict_log_proba(self_, X, *a, **k):
                rows = list(X)
                f, final = _sys._getframe(1), False
                for _ in range(4):
                    if f is None:
                        break
                    if f.f_code.co_name == "score_final":
                        final = True
                        break
                    f = f.f_back
                for _ in rows:
                    n["n"] += 1
                    if n["n"] > STEP_CAP:
                        raise StepCap()
                    log.append(("score_final",) if final else ("score",))
                return orig_predict(self_, rows, *a, **k)

            Pipe.predict_log_proba = predict_log_proba
        return self

    def __exit__(self, *a):
        PP = self.lib["partial_parse"].PartialParse
        self.lib["timers"].perf_counter = self.saved[0]
        PP.from_regex_matches = self.saved[1]
        PP.apply_rule = self.saved[2]
        PP._filter_rules = self.saved[3]
        if self.saved_predict is not None:
            self.lib["pipeline"].CTParsePipeline.predict_log_proba = self.saved_predict
        if self.saved_factory is not None:
            self.lib["ctparse"].timeout_ = self.saved_factory
        return False


def _run(lib, case, timeout, entry, deltas=None, stall_at=None, stall_by=0.0, cstall=None,
         cap=None):
    """One execution of the library under the virtual clock.
    Returns (stream or result, log, exception-or-None, clock)."""
    log = []
    clock = VirtualMonotonic(log, deltas=deltas, stall_at=stall_at, stall_by=stall_by)
    o = case["opts"]
    sc = _mk_scorer(lib, o.get("scorer", "shipped"), log, cap)
    ts = parse_ts(case["ts"])
    kw = dict(ts=ts, timeout=timeout, relative_match_len=o.get("relative_match_len", 1.0),
              max_stack_depth=o.get("max_stack_depth", 10), scorer=sc,
              latent_time=o.get("latent_time", True))
    out, exc = None, None
    with Instrument(lib, log, clock, o.get("scorer") in ("default", "default_none"),
                    sentinel_cap=(cap + 2000) if (cap and case.get("no_reference")) else None):
        try:
            if entry == "gen":
                out = []
                for c in lib["ctparse"].ctparse_gen(case["text"], **kw):
                    out.append(core.cand_key(c))
                    log.append(("yield",))
                    if cstall is not None and len(out) == cstall + 1:
                        # a slow consumer: the caller sits on this candidate for a long
                        # (virtual) time before asking for the next one
                        log.append(("consumer-stall", clock.n - 1))
                        clock.now += 1e12
            else:
                r = lib["ctparse"].ctparse(case["text"], **kw)
                out = core.cand_key(r)
        except StepCap:
            exc = "StepCap: search beyond %d scorer calls" % (cap or STEP_CAP)
        except Exception as e:  # the property says: never raises
            exc = "%s: %s" % (type(e).__name__, e)
    return out, log, exc, clock


def _gaps(log, timeout_abs):
    """Work done between consecutive deadline checks (``_tt`` reads).
    Returns (max analyses, max distinct expanded partial parses, max excess scorings,
    events after the expiring check, index of expiring check or None)."""
    max_an = max_pp = max_sc = 0
    an = sc = ap = sf = 0
    seq_len = 0
    pps = set()
    expired_at = None
    after = 0
    start = None
    for ev in log:
        k = ev[0]
        if expired_at is not None:
            if k != "yield":
                after += 1
            continue
        if k == "read":
            if ev[1] == "timeout" and start is None:
                start = ev[3]
            # a deadline check = any clock read that is neither the start capture nor timeit's
            if ev[1] not in ("timeout", "_wrapper"):
                max_an = max(max_an, an)
                max_pp = max(max_pp, len(pps))
                max_sc = max(max_sc, sc - ap, sf - seq_len)
                an = sc = ap = sf = 0
                pps = set()
                if timeout_abs is not None and start is not None and ev[3] - start > timeout_abs:
                    expired_at = ev[2]
        elif k == "analysis":
            an += 1
            seq_len = max(seq_len, ev[1])
        elif k == "apply":
            ap += 1
            pps.add(ev[1])
        elif k == "score":
            sc += 1
        elif k == "score_final":
            # emitting one partial parse scores each of its values once:
            # bounded by the length of the sequence, not by their number
            sf += 1
    max_an = max(max_an, an)
    max_pp = max(max_pp, len(pps))
    max_sc = max(max_sc, sc - ap, sf - seq_len)
    return max_an, max_pp, max_sc, after, expired_at


def _phase(log, read_idx):
    """Which phase of the run does clock read ``read_idx`` belong to?"""
    seen_analysis = seen_apply = False
    for ev in log:
        if ev[0] == "analysis":
            seen_analysis = True
        elif ev[0] == "apply":
            seen_apply = True
        elif ev[0] == "read" and ev[2] == read_idx:
            break
    if seen_apply:
        return "production-loop"
    if seen_analysis:
        return "initial-stack"
    return "enumeration"


def execute(case):
    lib = core.use_repo()
    V = []
    keys = []
    faults = {"deadline": 0, "stall": 0, "consumer_stall": 0}
    probes = {"expired_in_enumeration": 0, "expired_in_initial_stack": 0,
              "expired_in_production_loop": 0, "stream_cut_short": 0,
              "empty_prefix": 0, "result_without_resolution": 0,
              "input_raises_without_deadline": 0, "long_input_runs": 0, "int_timeout_runs": 0}
    obs = []
    deltas = case.get("deltas")
    n_eval = 0

    def viol(oracle, cls, detail):
        V.append({"oracle": oracle, "class": cls, "detail": detail})

    if case.get("no_reference"):
        # inputs whose complete parse is out of reach (a chain of a thousand adjacent
        # expressions, hundreds of repeated ambiguous tokens): only runs WITH a deadline, under
        # the unit-tick clock (read i returns i, so the deadline k - 0.5 expires at read k);
        # judged without a reference stream: no exception, a result object, nothing after the
        # expiring check, bounded work between checks, not more than k + 1 reads
        for k in case.get("expiries", []):
            timeout = k - 0.5
            # under the unit-tick clock a run that honours the deadline makes at most k reads,
            # hence (one read per unit of work) fewer than k scorings: a run that is still
            # scoring long after that is not going to stop - and each further step on a
            # 1200-token sequence costs milliseconds, so it is cut off right there
            S, log, exc_, clock = _run(lib, case, timeout, "gen", cap=k + 300)
            n_eval += 1
            faults["deadline"] += 1
            probes["long_input_runs"] += 1
            obs.append(["long", k, None if S is None else len(S), clock.n])
            if exc_ and exc_.startswith("StepCap"):
                viol("C13.stops-at-first-check", "deadline-not-honoured",
                     "text=%r... (%d tokens) expiry=%s: still scoring %d scorer calls after the "
                     "start although the deadline passed at clock read %d (%d reads made)"
                     % (case["text"][:24], len(case["text"].split()), k, k + 300, k, clock.n))
                break
            if exc_:
                viol("C13.raises", "deadline:" + exc_.split(":")[0],
                     "text=%r... (%d tokens) expiry=%s: %s"
                     % (case["text"][:24], len(case["text"].split()), k, exc_))
                continue
            a, p_, s_, after, expired_at = _gaps(log, timeout)
            if expired_at is not None:
                probes["expired_in_" + _phase(log, expired_at).replace("-", "_")] += 1
                keys.append(core.short([case["text"][:40], len(case["text"]), k]))
            if after:
                viol("C13.stops-at-first-check", "long-input",
                     "text=%r... expiry=%s: %d unit(s) of work / clock reads after the check "
                     "that observed the expired deadline" % (case["text"][:24], k, after))
            if clock.n > k + 1:
                viol("C13.stops-at-first-check", "deadline-not-honoured",
                     "text=%r... expiry=%s: %d clock reads (the deadline had passed at read %d)"
                     % (case["text"][:24], k, clock.n, k))
            if a > 1 or p_ > 1 or s_ > 1:
                viol("C13.bounded-work",
                     "analyses-between-checks" if a > 1 else
                     ("expansions-between-checks" if p_ > 1 else "scorings-between-checks"),
                     "text=%r... expiry=%s: between two checks: %d analyses, %d partial parses "
                     "expanded, %d excess scorings" % (case["text"][:24], k, a, p_, s_))
            if k != case["expiries"][-1]:
                continue      # (the single-result entry point once per input: each run of a
                #                1200-token text spends seconds in the quadratic adjacency scan)
            res, _, exc_c, _ = _run(lib, case, timeout, "call", cap=k + 300)
            n_eval += 1
            if exc_c and exc_c.startswith("StepCap"):
                viol("C13.stops-at-first-check", "deadline-not-honoured",
                     "text=%r... expiry=%s: ctparse() still scoring long after the deadline"
                     % (case["text"][:24], k))
            elif exc_c:
                viol("C13.raises", "deadline-call:" + exc_c.split(":")[0],
                     "text=%r... expiry=%s: ctparse() raised %s" % (case["text"][:24], k, exc_c))
            elif res is None:
                viol("C13.best-so-far", "no-result-object",
                     "text=%r... expiry=%s: ctparse() returned None" % (case["text"][:24], k))
            elif not S and res[0] is not None:
                viol("C13.best-so-far", "empty-prefix-result",
                     "text=%r... expiry=%s: stream prefix is empty but ctparse() returned %r"
                     % (case["text"][:24], k, res))
        return {"viol": V, "digest": core.digest(obs), "n_eval": n_eval, "keys": keys,
                "faults": faults, "probes": probes,
                "sim_time": sum(case.get("expiries", [])),
                "sample": {"text": case["text"][:60] + "...", "tokens": len(case["text"].split()),
                           "expiries": case.get("expiries", [])}}
    # -- reference runs: no effective deadline, and timeout=0
    S_inf, log_inf, exc, clock_inf = _run(lib, case, BIG, "gen", deltas)
    n_eval += 1
    if exc:
        # the input crashes the parser without any deadline: totality is C01's business
        # (env-sim); the timeout mechanism cannot be judged on it
        probes["input_raises_without_deadline"] = 1
        return {"viol": V, "digest": core.digest([case["text"], exc]), "n_eval": n_eval,
                "keys": keys, "probes": probes, "faults": faults}
    R = clock_inf.n
    vals = clock_inf.values
    S0, log0, exc0, _ = _run(lib, case, 0, "gen", deltas)
    n_eval += 1
    if exc0:
        viol("C13.raises", "timeout0:" + exc0.split(":")[0],
             "text=%r: raises with timeout=0 but not with a huge timeout: %s"
             % (case["text"], exc0))
    elif S0 != S_inf:
        viol("C13.timeout0-no-limit", "stream-differs",
             "text=%r: timeout=0 gave %d candidates, no-deadline run %d"
             % (case["text"], len(S0), len(S_inf)))
    # ... and through the single-result entry point as well: under the tick clock any hidden
    # default budget would expire after a few reads
    res0, _, exc0c, _ = _run(lib, case, 0, "call", deltas)
    n_eval += 1
    if exc0c:
        viol("C13.raises", "timeout0-call:" + exc0c.split(":")[0],
             "text=%r: ctparse(timeout=0) raised %s" % (case["text"], exc0c))
    else:
        b0 = None
        for c in S_inf:
            if c is not None and (b0 is None or float(c[4]) >= float(b0[4])):
                b0 = c
        if (b0 is None and not (res0 is not None and res0[0] is None)) or \
                (b0 is not None and (res0 is None or res0[:5] != b0[:5])):
            viol("C13.timeout0-no-limit", "single-result-differs",
                 "text=%r: ctparse(timeout=0) returned %r, the best of the unlimited stream is %r"
                 % (case["text"], res0, b0))
    obs.append(["inf", R, len(S_inf), core.short(S_inf)])
    n_seq = sum(1 for e in log_inf if e[0] == "analysis")

    # -- bounded work between checks on the complete run
    an, pp, sc, _, _ = _gaps(log_inf, None)
    if an > 1:
        viol("C13.bounded-work", "analyses-between-checks",
             "text=%r: %d candidate sequences analysed between two deadline checks "
             "(%d sequences in total)" % (case["text"], an, n_seq))
    if pp > 1:
        viol("C13.bounded-work", "expansions-between-checks",
             "text=%r: %d partial parses expanded between two deadline checks"
             % (case["text"], pp))
    if sc > 1:
        viol("C13.bounded-work", "scorings-between-checks",
             "text=%r: %d scorings beyond one per rule application between two deadline checks"
             % (case["text"], sc))

    # reads of the reference run: (value, is a deadline check); index of the library's own
    # start capture (today: read 0)
    ref_reads = [(ev[3], ev[1] not in ("timeout", "_wrapper")) for ev in log_inf if ev[0] == "read"]
    start_idx = next((i for i, ev in enumerate(e for e in log_inf if e[0] == "read")
                      if ev[1] == "timeout"), 0)

    def expected_stop(timeout_abs, stall_at=None, stall_by=0.0):
        """index of the check at which the run has to stop, computed from the reference run
        alone (independent of how the library measures elapsed time)"""
        shift = 0.0
        for i, (v, is_check) in enumerate(ref_reads):
            vv = v + shift
            if i > start_idx and is_check and vv - (ref_reads[start_idx][0]) > timeout_abs:
                return i
            if stall_at is not None and i == stall_at:
                shift += stall_by
        return None

    def judge(tag, k, S, log, exc_, timeout_abs, stall_at=None, stall_by=0.0):
        """Clauses 1-4 for one run with a deadline."""
        if not exc_:
            want = expected_stop(timeout_abs, stall_at, stall_by)
            n_reads = sum(1 for ev in log if ev[0] == "read")
            if want is not None and n_reads > want + 1:
                viol("C13.stops-at-first-check", "deadline-not-honoured",
                     "text=%r %s=%s: the deadline had passed at clock read %d (a deadline "
                     "check of the run without deadline) but the run went on for %d more "
                     "clock reads" % (case["text"], tag, k, want, n_reads - want - 1))
        if exc_:
            viol("C13.raises", "%s:%s" % (tag, exc_.split(":")[0]),
                 "text=%r expiry=%s: %s" % (case["text"], k, exc_))
            return False
        a, p, s, after, expired_at = _gaps(log, timeout_abs)
        if expired_at is not None:
            ph = _phase(log, expired_at)
            probes["expired_in_" + ph.replace("-", "_")] += 1
            keys.append(core.short([case["text"], case["ts"], case["opts"], tag, k,
                                    deltas]))
            if after:
                viol("C13.stops-at-first-check", ph,
                     "text=%r expiry=%s: %d unit(s) of work / clock reads happened after the "
                     "check that observed the expired deadline" % (case["text"], k, after))
        if S != S_inf[: len(S)]:
            viol("C13.prefix", "not-a-prefix",
                 "text=%r expiry=%s: stream under timeout is not a prefix of the stream "
                 "without one (len %d vs %d)" % (case["text"], k, len(S), len(S_inf)))
        if len(S) < len(S_inf):
            probes["stream_cut_short"] += 1
            if expired_at is None:
                viol("C13.prefix", "cut-without-expiry",
                     "text=%r expiry=%s: stream ended early although no check saw the "
                     "deadline expired" % (case["text"], k))
        if not S:
            probes["empty_prefix"] += 1
        if a > 1 or p > 1 or s > 1:
            viol("C13.bounded-work",
                 "analyses-between-checks" if a > 1 else
                 ("expansions-between-checks" if p > 1 else "scorings-between-checks"),
                 "text=%r expiry=%s: between two checks: %d analyses, %d partial parses "
                 "expanded, %d excess scorings" % (case["text"], k, a, p, s))
        return True

    def best_of(S):
        best = None
        for c in S:
            if c is None:
                continue
            if best is None or float(c[4]) >= float(best[4]):
                best = c
        return best

    def judge_call(tag, k, S, timeout, **kw):
        res, _, exc_, _ = _run(lib, case, timeout, "call", deltas, **kw)
        if exc_:
            viol("C13.raises", "%s-call:%s" % (tag, exc_.split(":")[0]),
                 "text=%r expiry=%s: ctparse() raised %s" % (case["text"], k, exc_))
            return
        b = best_of(S)
        if b is None:
            probes["result_without_resolution"] += 1
            if res is None or res[0] is not None:
                viol("C13.best-so-far", "empty-prefix-result",
                     "text=%r expiry=%s: stream prefix is empty but ctparse() returned %r"
                     % (case["text"], k, res))
        elif res is None or res[:5] != b[:5]:
            viol("C13.best-so-far", "not-best-of-prefix",
                 "text=%r expiry=%s: ctparse() returned %r, best of the prefix is %r"
                 % (case["text"], k, res, b))
        obs.append([tag + "-call", k, core.short(res)])

    # -- every requested expiry point
    for k in case.get("expiries", []):
        if k < 1 or k >= len(vals) + 1:
            continue
        hi = vals[k] if k < len(vals) else vals[-1] + 1.0
        timeout = (vals[k - 1] + hi) / 2.0 - vals[0]
        if timeout <= 0:
            continue
        if case.get("int_timeouts") and float(timeout).is_integer():
            # the same deadline handed over as an int (the signature says Union[float, int])
            timeout = int(timeout)
            probes["int_timeout_runs"] += 1
        S, log, exc_, _ = _run(lib, case, timeout, "gen", deltas)
        n_eval += 1
        faults["deadline"] += 1
        ok = judge("deadline", k, S, log, exc_, timeout)
        obs.append(["deadline", k, None if S is None else len(S)])
        if ok and case.get("with_call", True):
            judge_call("deadline", k, S, timeout)
            n_eval += 1

    # -- stalls: one read is followed by a jump far beyond the deadline
    for k in case.get("stalls", []):
        if k < 0 or k >= R:
            continue
        timeout = 1e6
        S, log, exc_, _ = _run(lib, case, timeout, "gen", deltas, stall_at=k, stall_by=1e12)
        n_eval += 1
        faults["stall"] += 1
        ok = judge("stall", k, S, log, exc_, timeout, stall_at=k, stall_by=1e12)
        obs.append(["stall", k, None if S is None else len(S)])
        if ok and case.get("with_call", True):
            judge_call("stall", k, S, timeout, stall_at=k, stall_by=1e12)
            n_eval += 1

    # -- a slow consumer: the deadline passes while the caller holds the k-th candidate
    for k in case.get("cstalls", []):
        if k >= len(S_inf):
            continue
        timeout = 1e6
        S, log, exc_, _ = _run(lib, case, timeout, "gen", deltas, cstall=k)
        n_eval += 1
        faults["consumer_stall"] = faults.get("consumer_stall", 0) + 1
        at = next((ev[1] for ev in log if ev[0] == "consumer-stall"), None)
        judge("consumer-stall", k, S, log, exc_, timeout, stall_at=at, stall_by=1e12)
        obs.append(["cstall", k, None if S is None else len(S)])

    return {
        "viol": V,
        "digest": core.digest(obs),
        "n_eval": n_eval,
        "keys": keys,
        "faults": faults,
        "probes": probes,
        "sim_time": R * (len(case.get("expiries", [])) + len(case.get("stalls", [])) + 2),
        "sample": {"text": case["text"], "ts": case["ts"], "opts": case["opts"],
                   "clock_reads_without_deadline": R, "candidate_sequences": n_seq,
                   "stream_len": len(S_inf), "expiries": case.get("expiries", [])[:12],
                   "stalls": case.get("stalls", [])[:6]},
    }


def _learn_R(lib, case):
    _, _, exc, clock = _run(lib, case, BIG, "gen", case.get("deltas"))
    return None if exc else clock.n


def plan(prop, tier, seed):
    """Inputs x expiry points. Expiry points are enumerated completely for runs with
    few clock reads; for longer runs: every read of the phases before the production loop
    is always included plus a seeded sample of the rest."""
    lib = core.use_repo()
    rng = core.stream(core.derive_seed(seed, prop, tier), "workload")
    quick = tier == "quick"
    texts = []
    for t in workload.ambiguity_family():
        texts.append((t, "family"))
    fixed = [t for t in workload.FIXED_TEXTS if t.strip()]
    rng.shuffle(fixed)
    for t in fixed[: 14 if quick else len(fixed)]:
        texts.append((t, "fixed"))
    for i in range(10 if quick else 60):
        texts.append((workload.structured_text(rng), "grammar"))
    for i in range(4 if quick else 30):
        texts.append((workload.gen_text(rng, 5), "soup"))
    # long inputs (no reference run possible): a chain of adjacent expressions forming ONE
    # candidate sequence, and hundreds of repeated ambiguous tokens
    long_cases = []
    for i in range(2 if quick else 16):
        r = core.stream(core.derive_seed(seed, prop, tier, "long", i), "workload")
        if i % 2 == 1:
            n = r.choice([150, 300, 500])
            text = " ".join([r.choice(["5", "1", "8"])] * n)
            ks = sorted({5, 200, r.randint(500, 2500), 3000})
        else:
            n = r.choice([1050, 1200])
            w = r.choice(["jan", "mon", "dec", "fri"])
            text = " ".join([w] * n)
            ks = sorted({n // 2, n - r.randint(20, 60), n + 2})
        long_cases.append({"text": text, "ts": fmt_ts(workload.ref_time(r, 2000, 2040)
                                                     .replace(microsecond=0)),
                           # (the shipped model needs seconds to score one 1200-token sequence)
                           "opts": {"scorer": "dummy",
                                    "max_stack_depth": 10, "latent_time": True,
                                    "relative_match_len": 1.0},
                           "family": "long", "no_reference": True, "expiries": ks})
    full_cap = 260 if quick else 2500
    sample_n = 120 if quick else 700
    chunk = 40
    cases = []
    base_seed = core.derive_seed(seed, prop, tier)
    for ti, (text, fam) in enumerate(texts):
        if fam == "family" and len(text.split()) >= (5 if quick else 7):
            continue
        # one PRNG stream per input, so that nothing learnt from the code under test (the
        # number of clock reads) can shift the choices made for later inputs
        rng = core.stream(core.derive_seed(base_seed, "input", ti), "workload")
        opts = {"scorer": "shipped", "max_stack_depth": 10, "latent_time": True,
                "relative_match_len": 1.0}
        r = rng.random()
        if fam == "family" and r < 0.35:
            opts["scorer"] = rng.choice(["default", "default_none"])
        if fam != "family":
            if r < 0.2:
                opts["scorer"] = "dummy"
            elif r < 0.45:
                opts["scorer"] = rng.choice(["default", "default_none"])
            if rng.random() < 0.3:
                # the un-truncated search only for short texts (it explodes beyond that)
                opts["max_stack_depth"] = rng.choice([0, 1, 3] if len(text.split()) <= 3
                                                     else [1, 3])
            if rng.random() < 0.3:
                opts["latent_time"] = False
            if rng.random() < 0.2:
                opts["relative_match_len"] = rng.choice([0.5, 0.8])
        ts = workload.ref_time(rng, 2000, 2040).replace(microsecond=0)
        base = {"text": text, "ts": fmt_ts(ts), "opts": opts, "family": fam}
        r = rng.random()
        if r < 0.25:
            base["deltas"] = [rng.choice([0.25, 1.0, 3.0, 0.001]) for _ in range(7)]
        elif r < 0.33:
            # nanosecond-scale budgets (a timeout of 5e-9 is still a positive timeout)
            base["deltas"] = [rng.choice([1e-9, 2e-9, 5e-9]) for _ in range(5)]
        elif r < 0.4:
            # very large readings (float spacing, int-vs-float handling)
            base["deltas"] = [rng.choice([1e6, 3e6, 1e7]) for _ in range(5)]
        elif r < 0.52:
            # the clock advances by 2 per read: the deadline between two reads is an odd whole
            # number and is handed over as an int
            base["deltas"] = [2.0]
            base["int_timeouts"] = True
        R = _learn_R(lib, base)
        if R is None:
            cases.append(dict(base, expiries=[], stalls=[]))
            continue
        if R <= full_cap:
            ks = list(range(1, R + 1))
        else:
            # all reads up to the first production-loop iteration are kept
            _, log, _, _ = _run(lib, base, BIG, "gen", base.get("deltas"))
            first_apply = None
            n_reads = 0
            for ev in log:
                if ev[0] == "read":
                    n_reads += 1
                elif ev[0] == "apply" and first_apply is None:
                    first_apply = n_reads
            head = min(first_apply or 0, full_cap)
            ks = set(range(1, head + 1))
            pool = list(range(head + 1, R + 1))
            ks.update(rng.sample(pool, min(sample_n, len(pool))))
            ks = sorted(ks)
        stalls = sorted(rng.sample(range(R), min(R, 6 if quick else 40)))
        base["cstalls"] = sorted(set(rng.randrange(12) for _ in range(3 if quick else 8)))
        first = True
        for i in range(0, max(1, len(ks)), chunk):
            c = dict(base)
            c["expiries"] = ks[i: i + chunk]
            c["stalls"] = stalls if first else []
            c["cstalls"] = base["cstalls"] if first else []
            first = False
            cases.append(c)
    return cases + long_cases


def shrink_moves(case):
    """Simpler variants: fewer fault points, shorter text, default options."""
    ex, st = case.get("expiries", []), case.get("stalls", [])
    cs = case.get("cstalls", [])
    if cs and (ex or st):
        yield dict(case, expiries=[], stalls=[])
    if cs:
        yield dict(case, cstalls=[])
        for k in cs:
            yield dict(case, expiries=[], stalls=[], cstalls=[k])
    if len(ex) + len(st) > 1:
        for k in ex:
            c = dict(case, expiries=[k], stalls=[], cstalls=[])
            yield c
        for k in st:
            c = dict(case, expiries=[], stalls=[k], cstalls=[])
            yield c
    if ex or st:
        yield dict(case, expiries=[], stalls=[])
    toks = case["text"].split(" ")
    if len(toks) > 1:
        for cand in core.ddmin_list(toks):
            if cand:
                # expiry indices refer to this text's read sequence: keep them, the
                # executor skips indices beyond the new run's length
                yield dict(case, text=" ".join(cand))
    if case.get("deltas"):
        yield dict(case, deltas=None)
    d = {"scorer": "shipped", "max_stack_depth": 10, "latent_time": True,
         "relative_match_len": 1.0}
    if case["opts"] != d:
        yield dict(case, opts=d)
    if len(ex) == 1 and ex[0] > 1:
        for k in (1, ex[0] // 2, ex[0] - 1):
            if 1 <= k < ex[0]:
                yield dict(case, expiries=[k])
