import importlib
import json
import os
import sys

from . import core
from .registry import CHECKS


def main(argv):
    if not argv:
        print(__doc__ or "usage: check <ID> [--tier quick|thorough]")
        return 2
    try:
        if argv[0] == "--replay":
            return _replay(argv[1])
        if argv[0] == "--digest":
            return _digest(argv[1])
        if argv[0] == "selftest":
            from . import selftest
            return selftest.main(argv[1:])
        prop = argv[0]
        tier = os.environ.get("VERIF_TIER", "quick")
        if "--tier" in argv:
            tier = argv[argv.index("--tier") + 1]
        if prop not in CHECKS:
            print("unknown property %s (claimed: %s)" % (prop, " ".join(sorted(CHECKS))))
            return 2
        if tier not in ("quick", "thorough"):
            print("unknown tier", tier)
            return 2
        seed = int(os.environ.get("VERIF_SEED", "0") or 0)
        jobs = int(os.environ.get("VERIF_JOBS", "0") or 0) or min(16, os.cpu_count() or 1)
        engine, level = CHECKS[prop]
        return core.run_check(prop, engine, tier, seed, jobs, level)
    except core.HarnessError as e:
        print("HARNESS-ERROR %s" % e, flush=True)
        return 2


def _replay(path):
    core.use_repo()
    hit, r, rp = core.replay_file(path)
    if r.get("harness_error"):
        print("HARNESS-ERROR while replaying %s:\n%s" % (path, r["harness_error"]))
        return 2
    if hit:
        for x in r["viol"]:
            if x["oracle"] == rp["violation"]["oracle"] and x["class"] == rp["violation"]["class"]:
                print("  oracle=%s class=%s\n  detail: %s" % (x["oracle"], x["class"], x.get("detail")))
                break
        print("VIOLATION property=%s replay=%s" % (rp["property"], path))
        return 1
    print("replay %s: violation %s/%s NOT reproduced on %s"
          % (path, rp["violation"]["oracle"], rp["violation"]["class"], core.REPO))
    return 0


def _digest(engine_name):
    core.use_repo()
    engine = importlib.import_module("qsim.engines." + engine_name)
    if hasattr(engine, "worker_setup"):
        engine.worker_setup()
    cases = json.load(sys.stdin)
    out = []
    for c in cases:
        # each case in a fork of this still pristine interpreter: same cold state as a
        # pool worker's child (CPython's line-event emission is not identical between the
        # first and later executions of a code object)
        r = core.run_case_forked(engine, c)
        if r.get("harness_error"):
            sys.stderr.write(r["harness_error"])
            return 2
        out.append(r["digest"])
    print(json.dumps(out))
    return 0
