"""Baton-passing real threads: what is real is the threads, what is never real is the
choice of who runs. Exactly one thread holds the baton; pre-emption points are the
``line`` (optionally ``opcode``) trace events inside files under a given prefix; at each
point a seeded stream decides "continue" or "switch to thread j"."""
import sys
import threading


class Baton:
    def __init__(self, rng, switch_prob, prefix, opcode=False, max_steps=3_000_000,
                 max_switches=20_000):
        self.max_switches = max_switches
        self.rng = rng
        self.p = switch_prob
        self.prefix = prefix
        self.opcode = opcode
        self.max_steps = max_steps
        self.steps = 0
        self.switches = 0
        self.trace = []          # (steps at switch, from, to)
        self.sems = []
        self.done = []
        self.errors = []
        self.main = threading.Semaphore(0)
        self.run_len = 0

    # -- trace functions (run in the thread that holds the baton)
    def _global(self, me):
        prefix = self.prefix

        def local(frame, event, arg):
            if self.steps > self.max_steps:
                # step cap reached: stop tracing (the remaining work runs un-pre-empted)
                frame.f_trace_opcodes = False
                return None
            if event == "line" or event == "opcode":
                self._preempt(me)
            return local

        def g(frame, event, arg):
            if self.steps > self.max_steps:
                return None
            if event == "call" and frame.f_code.co_filename.startswith(prefix):
                if self.opcode:
                    frame.f_trace_opcodes = True
                return local
            return None

        return g

    def _runnable(self, me):
        return [i for i, d in enumerate(self.done) if not d and i != me]

    def _preempt(self, me):
        self.steps += 1
        self.run_len += 1
        if self.steps > self.max_steps or self.switches >= self.max_switches:
            return
        if self.rng.random() < self.p:
            others = self._runnable(me)
            if others:
                j = others[self.rng.randrange(len(others))]
                self.trace.append((self.steps, me, j))
                self.switches += 1
                self.sems[j].release()
                self.sems[me].acquire()

    def _body(self, me, fn):
        self.sems[me].acquire()
        sys.settrace(self._global(me))
        try:
            fn()
        except BaseException as e:  # reported by the engine
            self.errors.append((me, "%s: %s" % (type(e).__name__, e)))
        finally:
            sys.settrace(None)
            self.done[me] = True
            others = self._runnable(me)
            if others:
                j = others[self.rng.randrange(len(others))]
                self.trace.append((self.steps, me, j))
                self.sems[j].release()
            else:
                self.main.release()

    def run(self, fns, join_timeout=60):
        n = len(fns)
        self.sems = [threading.Semaphore(0) for _ in range(n)]
        self.done = [False] * n
        ths = [threading.Thread(target=self._body, args=(i, f), daemon=True)
               for i, f in enumerate(fns)]
        for t in ths:
            t.start()
        first = self.rng.randrange(n)
        self.sems[first].release()
        # Liveness is judged by PROGRESS, not by how long the run takes: the threads are
        # declared stuck only when no pre-emption point at all was passed and no thread
        # finished during `join_timeout` seconds (a thread blocked on a lock that a parked
        # thread holds makes no trace events; a slow machine still makes some).
        last = (-1, -1)
        ok = False
        while True:
            if self.main.acquire(timeout=join_timeout):
                ok = True
                break
            now = (self.steps, sum(self.done))
            if now == last:
                break
            last = now
        for t in ths:
            t.join(timeout=1.0)
        return ok and all(self.done)
