#!/venv/bin/python
"""Regenerate /verif/MANIFEST.json from the tables below (single source of truth)."""
import json
import os
import sys

HERE = os.path.dirname(os.path.dirname(os.path.abspath(__file__)))
sys.path.insert(0, HERE)
from qsim.registry import CHECKS  # noqa

BUILT = os.environ.get("QSIM_BUILT", "").split() or None

TEXT = {
    "C13": dict(
        technique="deterministic simulation: virtual monotonic clock, deadline injected at every clock read (fault enumeration), work counted between checks",
        text="Every expiry point (deadline strictly between two consecutive reads of the virtual perf_counter) of each input is executed when the run has few reads; for long runs all reads before the production loop plus a seeded sample. Each run is judged for: no exception, prefix of the no-deadline stream, nothing executed after the check that saw the deadline, at most one candidate sequence analysed / one partial parse expanded between two checks, ctparse() == best of the prefix. The stop point is computed from the reference run alone (first deadline check whose reading exceeds start + timeout), so a deadline measured from the wrong origin or not honoured at all is caught however the library measures elapsed time; ctparse(timeout=0) must equal the best of the unlimited stream. Inputs too long for a reference run (1200 adjacent expressions, 500 repeated ambiguous tokens) are run with deadlines only and judged for: no exception, result object, nothing after the expiring check, bounded work. Deadlines are also handed over as int. Stalls (one read jumps far past the deadline), slow-consumer stalls (the caller sits on the k-th candidate) and clocks with jittered, nanosecond- and mega-scale readings are injected too. Fault enumeration is the right level because the fault space (where the deadline falls) is finite per input and enumerable only with a virtual clock.",
        note="Trusted: discrete-event time (time passes only at clock reads); perf_counter monotonic; the counting wrappers installed on PartialParse.from_regex_matches/apply_rule/_filter_rules and the counting Scorer (for the library's own scorer object: a per-row counter on CTParsePipeline.predict_log_proba) observe all work. Inputs are sampled (ambiguity family n=2..6 repeated tokens, fixed texts, grammar texts).",
        ref="4.1"),
    "C14": dict(
        technique="deterministic simulation: the Scorer is the seeded scheduler of the search; emission history checked after each step",
        text="The search is driven by a simulated scorer (constant, shipped, negated, FIFO/LIFO counters, seeded uniform / coarse / tiny-scale / last-bit / huge-scale) that decides the order of every rule application; the single-result call is compared with the recorded stream under an identical score script; finiteness and the strictly-better re-emission rule are checked over the emission history, also for very deep searches (about 350 000 partial productions in one parse), falsy scorer objects, integer scores beyond 2**53 and runs with every option left at its default. Seeded exploration over texts x schedulers x depth limits x reference times.",
        note="Trusted: oracle-side value keys (all fields, both ends, amount+unit); the score script replays exactly. Sampling, not proof.",
        ref="4.3"),
    "C15": dict(
        technique="deterministic simulation: scorer-as-scheduler + lossy stack fault + prefilter buggify; refinement against an executable reference derivation model",
        text="Every streamed candidate is checked against an independent reference derivation model (own matcher, own sequence enumeration, own window matcher, deep-copied arguments, closure to fixpoint): sound (derivable, and derivable along its reported production), complete (every terminal value streamed, for every scheduler), pure (argument snapshots around each rule application; yielded candidates re-validated after every later step). Depth limits are injected as a loss fault (soundness only). Runs with latent-time anchoring on (the default configuration) are compared modulo a reference model of that post-processing step, and every value a rule has seen or produced is re-checked for in-place edits at each later rule application.",
        note="Trusted: the registered rules and patterns are the specification ('what the rules license'); the reference model applies the same production functions to copies. Texts are short, pre-processing must be the identity on them (labels are allowed and removed by an own scanner); texts whose closure exceeds the state cap or whose search exceeds the step cap are skipped and counted.",
        ref="4.3"),
    "C12": dict(
        technique="deterministic simulation: seeded interleaving of call/stream/abandon/fail steps and baton-passing threads pre-empted at line events, against a stateless table filled by fresh interpreters under several hash seeds",
        text="Histories of calls, step-wise consumed candidate streams, abandoned/leaked streams, failing calls (the caller's scorer raising its own or builtin exception types; calls that raise inside the library because the answer is not representable) and virtual-deadline calls from 2-6 simulated clients are interleaved by a seeded scheduler; after every step the observation must equal the entry of a stateless reference table computed by fresh interpreters (first and only call) under different PYTHONHASHSEEDs. Every history lives on one virtual monotonic clock (streams opened under positive timeouts, time advancing while all are suspended). Pools are related texts (same tokens reordered, other surface form, same instant in another zone, other scorer); overlap scenarios suspend a stream while the same text is parsed under other arguments; offset scenarios keep the same expression alive at different character offsets in two streams; long sequential histories run 450-4200 distinct texts with early ones coming back. All interleavings of small stream pairs are enumerated. Real threads are scheduled one at a time (sys.settrace line/opcode pre-emption), liveness judged by progress. Model, rule base and the caller's scorer argument are digested before/after.",
        note="Trusted: C code inside one regex call is atomic (cannot be pre-empted under our control); thread switch points are line/opcode events in /repo/ctparse only.",
        ref="4.2"),
    "C03": dict(
        technique="deterministic simulation: virtual wall clock (ticks, boundary jumps, back-steps, client skew) driving omitted-ts and explicit-ts requests; calendar reference model",
        text="Relative-day surface forms are requested while a simulated wall clock is moved over boundaries (midnight, month/year ends, leap days) with jumps, back-steps and client skew, on a simulated machine whose process time zone is not UTC; explicit reference times are naive, aware with a fixed offset, aware in a zone with DST rules (around the switch days), or the same instant handed over in two zones; results must equal an independent calendar model at the instant read by the call. Thorough walks every day of the 28-year cycle 2016-2043.",
        note="Trusted: calendar model built on datetime.date/timedelta only; surface-form table expanded by hand from the rule patterns; best-ranked reading is judged.",
        ref="4.4"),
    "C04": dict(
        technique="deterministic simulation: virtual wall clock + calendar reference model (nearest future occurrence)",
        text="Weekday / day-of-month / day+month / part-of-day forms under a moving simulated clock; result must be the nearest matching date not before the reference date with written fields preserved. Thorough walks every day of 2016-2043.",
        note="Same trusted base as C03; pod_hours start hours are taken from the library's own table.",
        ref="4.4"),
    "C05": dict(
        technique="deterministic simulation: clock jumps/skew as the fault; metamorphic invariance of absolute dates over all instants of a run",
        text="Absolute dates in every notation are requested at many simulated instants (jumps of years, back-steps, skewed clients, omitted ts); clocks include dotted notations and ones that repeat digits of the date; the result must equal the written fields at every instant and all notations must agree.",
        note="Exclusions from the property's own quantifier (military-time years) are applied and printed.",
        ref="4.4"),
    "C06": dict(
        technique="deterministic simulation: virtual wall clock placed on both sides of the requested minute; calendar reference model for latent anchoring",
        text="Every clock notation of (h, m) with anchoring off must give (h, m); with anchoring on, the first such instant strictly after the reference minute, with the clock placed before / at / after the requested minute and at day/month/year roll-overs and on the eve of DST switches for aware reference times, ts omitted (simulated now()) or explicit.",
        note="Same trusted base as C03.",
        ref="4.4"),
    "C01": dict(
        technique="deterministic simulation of deployments: model-file-absent fault (reload), scorer kind incl. seeded random, logging config, omitted ts under a virtual clock, step-wise stream consumption; swarm text workload",
        text="Each run draws a deployment (model present/absent, scorer, options, logging, clock) and pushes a swarm text workload through ctparse()/ctparse_gen(); the result must be an object, str()/repr() must work, subject a str, labels a list of str; the model-absent fault is injected in-process (reload) and for real (fresh interpreter on a package copy without the model file); non-termination is judged for depth-limited searches under deterministic scorers by a step cap two orders of magnitude above the largest legitimate search.",
        note="The input dimension dominates; the simulator adds the configuration/fault product and the clock seams. Sampling.",
        ref="4.5"),
    "C16": dict(
        technique="deterministic simulation: fit/predict/score/save/load/restart histories on a simulated store with write faults; textbook NB reference model",
        text="Seeded histories of FIT / PREDICT / SCORE / SAVE / LOAD / RESTART over random corpora (tiny to 75 000-token alphabets, lopsided classes, empty documents, exotic token strings); predictions must equal a from-the-definition multinomial NB reference within 1e-9, be finite and normalised; scores must decompose as stated; save+load and restart in a fresh interpreter under another hash seed must be bit-identical; a failed save (short write + ENOSPC at the k-th write) must leave the in-memory model intact; a pipeline fitted again in place must be the model of its new training set; a model file replaced by rename behind the library's back must be what the next load returns; long-lived scorer objects are kept across re-fits.",
        note="Trusted: the 40-line reference model; bz2/pickle real. Sampling.",
        ref="4.6"),
}

NA = {
    "C02": "pure function of (text, explicit reference time): no schedule, clock, fault, storage or randomness in the statement; needs input enumeration, not simulation (DESIGN.md section 5)",
    "C07": "pure function of the two written range ends; nothing to schedule or fault (DESIGN.md section 5)",
    "C20": "homomorphism between three parses at one fixed reference time; pure (DESIGN.md section 5)",
    "C08": "pure arithmetic on written amounts and dates (DESIGN.md section 5)",
    "C09": "metamorphic relation between texts; pure (DESIGN.md section 5)",
    "C10": "pure function of the text (DESIGN.md section 5)",
    "C11": "pure function of the text over Unicode categories (DESIGN.md section 5)",
    "C17": "pure function of the training multiset; its 'histories' are sets of inputs, not event orders (DESIGN.md section 5)",
    "C18": "algebraic property of three value classes; nothing runs concurrently, no clock or storage (DESIGN.md section 5)",
    "C19": "static structure of the rule base and pickled vocabulary; nothing executes over time (DESIGN.md section 5)",
}

ORDER = ["C13", "C15", "C14", "C12", "C03", "C04", "C05", "C06", "C01", "C16"]


def main():
    built = BUILT
    if built is None:
        built = [p for p in ORDER
                 if os.path.exists(os.path.join(HERE, "qsim", "engines", CHECKS[p][0] + ".py"))]
    checks = []
    for p in ORDER:
        if p not in built:
            continue
        eng, level = CHECKS[p]
        t = TEXT[p]
        checks.append({
            "property_id": p,
            "quick_cmd": "./check %s --tier quick" % p,
            "thorough_cmd": "./check %s --tier thorough" % p,
            "evidence_file": "/verif/evidence/%s.json" % p,
            "replay_cmd_template": "./check --replay {path}",
            "engine": eng,
            "technique": t["technique"],
            "level_claimed": {"category": level, "text": t["text"],
                              "design_ref": "DESIGN.md section " + t["ref"]},
            "level_note": t["note"],
        })
    na = [{"property_id": k, "reason": v} for k, v in NA.items()]
    for p in ORDER:
        if p not in built:
            na.append({"property_id": p,
                       "reason": "simulation check designed (DESIGN.md section %s) but not built yet; "
                                 "not claimed until it runs" % TEXT[p]["ref"]})
    engines = {}
    for p in built:
        e = CHECKS[p][0]
        engines.setdefault(e, []).append(p)
    kinds = {
        "deadline": "virtual monotonic clock, deadline/stall injection at every read",
        "search": "scorer-as-scheduler simulation of the production search + reference derivation model",
        "history": "seeded interleaving of calls/streams/threads vs. stateless table from fresh interpreters",
        "clocksim": "virtual wall clock (jumps, boundaries, skew) + calendar reference model",
        "envsim": "simulated deployments (model-absent fault, scorer kinds, logging, clock) + swarm workload",
        "storesim": "fit/save/load/restart histories on a simulated store with write faults + textbook NB",
    }
    m = {
        "version": 1,
        "setup_cmd": "/venv/bin/python -c \"import sys; sys.path.insert(0, '/repo'); import regex, dateutil, ctparse; print('qsim setup ok', ctparse.__file__)\"",
        "hooks": {
            "guard": "QUICKADD_VERIF",
            "enable": "no hooks: every seam is a module global or an existing parameter (ctparse.timers.perf_counter, datetime in ctparse.ctparse, scorer=, max_stack_depth=, bz2 in ctparse.nb_scorer, DEFAULT_MODEL_FILE, the class attribute CTParsePipeline.predict_log_proba, timeout_ in ctparse.ctparse, and the process environment variable TZ); checks import /repo's working tree directly",
            "baseline_off_cmd": "cd /repo && /venv/bin/python -m pytest -ra -q -p no:cacheprovider --timeout=900 --continue-on-collection-errors",
            "source_commits": [],
            "add_only": True,
        },
        "engines": [{"name": e, "path": "/verif/qsim/engines/%s.py" % e,
                     "serves_properties": ps, "kind_free_text": kinds[e]}
                    for e, ps in engines.items()],
        "checks": checks,
        "not_applicable": na,
        "notes": "Deterministic simulation with fault injection (qsim). VERIF_SEED decides every choice; replay files are explicit cases. Known findings: /verif/known_findings.json. Genuine defects repaired in /repo as 'fix:' commits are listed there as fixed.",
    }
    with open(os.path.join(HERE, "MANIFEST.json"), "w") as fd:
        json.dump(m, fd, indent=1)
    print("MANIFEST.json written: %d checks, %d not_applicable" % (len(checks), len(na)))


if __name__ == "__main__":
    main()
