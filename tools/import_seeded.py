#!/venv/bin/python
"""Confirm a sub-agent's breaking change in a fresh scratch worktree of /repo and keep it.

usage: tools/import_seeded.py <PROP> <dir with patch.diff demo.py notes.md> <name> [extra check ids]

Confirms: demo exits 0 on the clean tree; patch applies; pinned test suite still passes
(70 passed; tests/test_ctparse.py::test_ctparse is the baseline failure); demo exits non-zero
on the patched tree. Then copies the files to /verif/seeded/<name>/ with meta.json and removes
the scratch worktree.
"""
import json, os, re, shutil, subprocess, sys

prop, src, name = sys.argv[1], sys.argv[2], sys.argv[3]
extra = sys.argv[4:]
wt = "/tmp/scratch-" + name
run = lambda *a, **k: subprocess.run(*a, stdout=subprocess.PIPE, stderr=subprocess.STDOUT, text=True, **k)
run(["git", "-C", "/repo", "worktree", "remove", "--force", wt])
r = run(["git", "-C", "/repo", "worktree", "add", "--detach", wt, "HEAD"])
assert r.returncode == 0, r.stdout
log = {}
try:
    env = dict(os.environ, PYTHONPATH=wt, PYTHONDONTWRITEBYTECODE="1")
    demo = os.path.join(src, "demo.py")
    r = run(["/venv/bin/python", "-W", "ignore", demo], env=env, cwd=src, timeout=900)
    log["demo_clean_exit"] = r.returncode
    r = run(["git", "-C", wt, "apply", os.path.join(src, "patch.diff")])
    log["patch_applies"] = r.returncode == 0
    assert r.returncode == 0, r.stdout
    r = run(["/venv/bin/python", "-m", "pytest", "-q", "-p", "no:cacheprovider", "--timeout=900", "-n", "8"],
            env=env, cwd=wt, timeout=1800)
    m = re.search(r"(\d+) passed", r.stdout)
    f = re.findall(r"FAILED (\S+)", r.stdout)
    log["tests_passed"] = int(m.group(1)) if m else 0
    log["tests_failed"] = f
    r = run(["/venv/bin/python", "-W", "ignore", demo], env=env, cwd=src, timeout=900)
    log["demo_patched_exit"] = r.returncode
    log["demo_patched_tail"] = r.stdout.strip().splitlines()[-1][:300] if r.stdout.strip() else ""
    ok = (log["demo_clean_exit"] == 0 and log["demo_patched_exit"] != 0 and log["tests_passed"] >= 70
          and set(f) <= {"tests/test_ctparse.py::test_ctparse"})
    print(json.dumps(log, indent=1))
    if not ok:
        print("NOT CONFIRMED - not kept")
        sys.exit(1)
    dst = os.path.join("/verif/seeded", name)
    os.makedirs(dst, exist_ok=True)
    for fn in ("patch.diff", "demo.py", "notes.md"):
        shutil.copy(os.path.join(src, fn), os.path.join(dst, fn))
    notes = open(os.path.join(src, "notes.md")).read()
    meta = {"property": prop, "checks": [prop] + extra, "origin": "independent sub-agent given only the property text and a scratch worktree",
            "needs_to_manifest": notes.strip()[:1500],
            "confirmed": {"base_commit": run(["git", "-C", "/repo", "rev-parse", "--short", "HEAD"]).stdout.strip(),
                          "commands": ["PYTHONPATH=<scratch> /venv/bin/python demo.py  (clean tree)",
                                       "git -C <scratch> apply patch.diff",
                                       "cd <scratch> && PYTHONPATH=<scratch> /venv/bin/python -m pytest -q -p no:cacheprovider --timeout=900 -n 8",
                                       "PYTHONPATH=<scratch> /venv/bin/python demo.py  (patched tree)"],
                          "outcome": log}}
    json.dump(meta, open(os.path.join(dst, "meta.json"), "w"), indent=1)
    print("kept as", dst)
finally:
    run(["git", "-C", "/repo", "worktree", "remove", "--force", wt])
