#!/usr/bin/env python3-vt
"""Validate MANIFEST.json and evidence/*.json against the schemas (needs jsonschema: python3-vt)."""
import glob, json, sys
import jsonschema
ok = True
m = json.load(open('/verif/MANIFEST.json'))
jsonschema.validate(m, json.load(open('/root/.vp/MANIFEST.schema.json')))
print('MANIFEST ok:', [c['property_id'] for c in m['checks']])
ids = {json.loads(l)['id'] for l in open('/verif/properties.jsonl')}
have = {c['property_id'] for c in m['checks']} | {n['property_id'] for n in m.get('not_applicable', [])}
assert ids == have, (ids - have, have - ids)
sch = json.load(open('/root/.vp/EVIDENCE.schema.json'))
for f in sorted(glob.glob('/verif/evidence/*.json')):
    try:
        jsonschema.validate(json.load(open(f)), sch)
        print('evidence ok:', f)
    except Exception as e:
        ok = False
        print('evidence INVALID:', f, str(e)[:300])
sys.exit(0 if ok else 1)
